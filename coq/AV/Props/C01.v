(** C01 - Element-wise operations are observationally identical to std Vec.

    Refinement: the byte-level machine state [v] represents the list [xs] ([Rep c v xs],
    whose typed snapshot is [xs]: [C01_snapshot]); every element-wise operation of the
    model ([Vec.push_unchecked], [Vec.insert_unchecked] - both dispatch arms -, the removal
    handles of [Ops], [Vec.clear], reads) maps [Rep] to [Rep] of the list the
    specification [AV.Spec.VecSpec] gives, for EVERY element size (0 included), capacity,
    backend (fixed, resizable, relocating) and token.  Out-of-range indices panic and
    leave the state unchanged; a full fixed-capacity backend panics and leaves it
    unchanged.  The induction over whole histories, through [Interp.exec]
    exactly as the harness composes the API calls, is mechanised in the block "histories"
    below ([C01_history_refines]: machine = list specification [WorldSpec] for every script of
    the fragment, any number of vectors, values moved between vectors).  Lazy clones,
    drained elements and value mutation as sources / sinks inside a history are outside
    that fragment: their one-step theorems are in C02/C06/C08/C09/C13 and their composition
    is covered by the correspondence check. *)
From AV.Model Require Import Base Bytes Vec Ops.
From AV.Spec Require Import VecSpec.
From AV.Proofs Require Import MemLemmas Rep VecProofs TempProofs.

Theorem C01_snapshot : forall c v xs, Rep c v xs -> snapshot c v = Some xs.
Proof. exact snapshot_rep. Qed.

Theorem C01_new : forall c bk u v0, bk_wf bk ->
  forall v' u', mem_build c bk (v0, u) = Ok tt (v', u') ->
  Rep c v' [] /\ vbk v' = bk /\ uevents u' = uevents u /\ unext u' = unext u /\ ufuse u' = ufuse u.
Proof. exact mem_build_rep. Qed.

Theorem C01_push : forall c v u xs t k,
  cfg_wf c -> Rep c v xs -> tok_ok (szn c) t ->
  (vlen v < vcap v \/ grow_ok c v (vcap v + 1)) ->
  exists v' u',
    push_unchecked c (VBytes (enc (szn c) t) k) (v, u) = Ok tt (v', u') /\
    Rep c v' (sp_push t xs) /\ vbk v' = vbk v /\ same_user u u' /\
    (vlen v < vcap v -> vcap v' = vcap v /\ vgen v' = vgen v).
Proof. exact push_ok. Qed.

Theorem C01_insert : forall c v u xs t k i,
  cfg_wf c -> Rep c v xs -> tok_ok (szn c) t -> (i <= length xs)%nat ->
  (vlen v < vcap v \/ grow_ok c v (vcap v + 1)) ->
  exists v' u',
    insert_unchecked c (N.of_nat i) (VBytes (enc (szn c) t) k) (v, u) = Ok tt (v', u') /\
    Rep c v' (sp_insert i t xs) /\ vbk v' = vbk v /\ same_user u u' /\
    (vlen v < vcap v -> vcap v' = vcap v /\ vgen v' = vgen v).
Proof. exact insert_ok. Qed.

(** typed view and erased API agree (the two compile-time arms compute the same state) *)
Theorem C01_insert_paths_agree : forall c v u xs t i,
  cfg_wf c -> Rep c v xs -> tok_ok (szn c) t -> (i <= length xs)%nat ->
  (vlen v < vcap v \/ grow_ok c v (vcap v + 1)) ->
  insert_unchecked c (N.of_nat i) (VBytes (enc (szn c) t) true) (v, u)
  = insert_unchecked c (N.of_nat i) (VBytes (enc (szn c) t) false) (v, u).
Proof. exact insert_arms_agree. Qed.

Theorem C01_insert_out_of_range : forall c v u xs s i,
  Rep c v xs -> N.of_nat (length xs) < i ->
  insert_unchecked c i s (v, u) = Panic PIndex (v, u).
Proof. exact insert_oob. Qed.

Theorem C01_push_full_fixed : forall c v u xs s,
  Rep c v xs -> vlen v = vcap v -> fixed_backend (vbk v) ->
  push_unchecked c s (v, u) = Panic PCapacity (v, u).
Proof. exact push_full_fixed. Qed.

Theorem C01_insert_full_fixed : forall c v u xs s i,
  Rep c v xs -> i <= vlen v -> vlen v = vcap v -> fixed_backend (vbk v) ->
  insert_unchecked c i s (v, u) = Panic PCapacity (v, u).
Proof. exact insert_full_fixed. Qed.

(** pop / remove / swap_remove: creation, read, and the result once the value has left *)
Theorem C01_handle_new : forall c v u xs k i,
  Rep c v xs -> temp_req k i xs ->
  exists h,
    temp_new c k (N.of_nat i) (v, u) = Ok h (with_len (N.of_nat i) v, u) /\
    temp_for c v xs k i h.
Proof. exact temp_new_spec. Qed.

Theorem C01_handle_reads_the_element : forall c v u xs k i h,
  Rep c v xs -> temp_req k i xs -> temp_for c v xs k i h ->
  temp_bytes c h (with_len (N.of_nat i) v, u)
  = Ok (enc (szn c) (nth i xs 0)) (with_len (N.of_nat i) v, u).
Proof. exact temp_bytes_spec. Qed.

Theorem C01_handle_consumed : forall c v u xs k i h known,
  Rep c v xs -> temp_req k i xs -> temp_for c v xs k i h ->
  exists v',
    temp_consume c known h (with_len (N.of_nat i) v, u) = Ok tt (v', u) /\
    Rep c v' (temp_result k i xs) /\ vcap v' = vcap v /\ vbk v' = vbk v /\ vgen v' = vgen v.
Proof. exact temp_consume_spec. Qed.

Theorem C01_handle_paths_agree : forall c v u xs k i h,
  Rep c v xs -> temp_req k i xs -> temp_for c v xs k i h ->
  temp_consume c true h (with_len (N.of_nat i) v, u)
  = temp_consume c false h (with_len (N.of_nat i) v, u).
Proof. exact temp_consume_arms_agree. Qed.

Theorem C01_handle_dropped : forall c v u xs k i h known,
  Rep c v xs -> temp_req k i xs -> temp_for c v xs k i h -> ufuse u = None ->
  exists v' u',
    temp_drop c known h (with_len (N.of_nat i) v, u) = Ok tt (v', u') /\
    Rep c v' (temp_result k i xs) /\ vcap v' = vcap v /\ vbk v' = vbk v /\
    unext u' = unext u /\ ufuse u' = None /\
    ulog u' = (if c_dg c then [EDrop (nth i xs 0)] else []) ++ ulog u.
Proof. exact temp_drop_spec. Qed.

Theorem C01_clear : forall c v u xs,
  Rep c v xs -> ufuse u = None ->
  exists v' u',
    clear c (v, u) = Ok tt (v', u') /\
    Rep c v' [] /\ vcap v' = vcap v /\ vbk v' = vbk v /\
    unext u' = unext u /\ ufuse u' = None /\
    ulog u' = (if c_dg c then rev (map EDrop xs) else []) ++ ulog u.
Proof. exact clear_ok. Qed.

Theorem C01_get : forall c v xs i,
  Rep c v xs ->
  get_ptr c v i = if i <? N.of_nat (length xs) then Some (ptr_at c v i) else None.
Proof. exact get_ptr_spec. Qed.

Theorem C01_read : forall c v u xs i,
  Rep c v xs -> (i < length xs)%nat ->
  read_ptr c (ptr_at c v (N.of_nat i)) (v, u) = Ok (enc (szn c) (nth i xs 0)) (v, u).
Proof. exact read_elem. Qed.

(** The pinned tree's copy_bytes (forward byte loop only) is not memmove for an overlapping
    right shift: the erased insert in front of >= 2 small elements duplicated the first
    shifted element (defect D1, repaired). *)
Theorem C01_pinned_copy_bytes_refuted :
  exists src dst n m, (src + n <= length m)%nat /\ (dst + n <= length m)%nat /\
    copy_bytes_pinned src dst n m <> memmove src dst n m.
Proof. exact copy_bytes_pinned_refuted. Qed.

(** Non-vacuity: a concrete state satisfying the hypotheses, run through erased front inserts. *)
Example C01_example :
  let c := {| c_sz := 2; c_al := 2; c_dg := true; c_cl := true; c_trap := true; c_ty := 1 |} in
  let u := {| ulog := []; unext := 1; ufuse := None |} in
  let v0 := {| vlen := 0; vcap := 0; vmem := []; vgen := 0; vbk := BHeap |} in
  match (push_unchecked c (VBytes (enc 2 1) true);; push_unchecked c (VBytes (enc 2 2) false);;
         push_unchecked c (VBytes (enc 2 3) false);; insert_unchecked c 0 (VBytes (enc 2 9) false)) (v0, u) with
  | Ok _ (v, _) => snapshot c v = Some [9; 1; 2; 3]
  | _ => False
  end.
Proof. vm_compute. reflexivity. Qed.

(* ---- histories ---- *)
From AV.Model Require Import Interp.
From AV.Spec Require Import WorldSpec.
From AV.Proofs Require Import NoFault WorldProofs.
(** WHOLE HISTORIES.  [WorldSpec.spec_run] gives a script its meaning directly on lists (std::vec::Vec semantics: a world of vectors, fresh identities, which values the destructor runs on); [Interp.run_step] is the byte-level machine the harness's trace is compared with.  For EVERY list of operations of the fragment (new, with_capacity, push, insert - every fresh-value source kind, lazy clones of elements of other vectors and of values the caller owns, removal handles of other vectors, typed and erased path -, pop / remove / swap_remove with the handle dropped, downcast, forgotten or moved by push or insert into ANOTHER vector - possibly after a new value was written through it or lazy clones of it were downcast, nested to any depth ([WorldSpec.sp_sink]) -, clear, get, at, vector drop, reserve / reserve_exact / shrink_to_fit / shrink_to, drain and splice with any range and consumption pattern, clone / clone_empty / clone_empty_in, iter / iter_mut with any call pattern, cloned iterators, nth / nth_back, element handles read, written and swapped, type probes, refused wrong-type swap, wrong-typed values offered to push / insert, refused downcasts of removal handles; any number of vectors; every element size incl. 0, every backend kind incl. fixed capacity and the relocating backend with prebuilt capacity), every step's outcome, panic kind, returned values and user-code events are the specification's, the machine state represents the specification's lists afterwards (typed snapshot = list), and no step faults.  Hypothesis [Admissible]: at each growth the allocator can serve the request (decidable: [Admissibleb]); non-vacuity: [ex_admissible], [ex_spec_defined] on a 106-step history through every case.  Drained elements of another vector as value sources: [C01_drained_sources_in_histories]. *)
(** one script step *)
Theorem C01_step_refines :
  forall (c : cfg) (w : world) (st : astate) (o : op) (r : sres),
         cfg_wf c ->
         WRep c w st ->
         spec_step c st (unext (wuw w)) o = Some r -> admissible c w o -> obs_match c (run_step c None o w) r.
Proof. exact step_refines. Qed.

(** induction over the history *)
Theorem C01_history_refines :
  forall (c : cfg) (ops : list op) (w : world) (st : astate) (rs : list sres),
         cfg_wf c ->
         WRep c w st ->
         spec_run c st (unext (wuw w)) ops = Some rs ->
         Admissible c w ops -> Forall2 (obs_match c) (run_hist c ops w) rs.
Proof. exact history_refines. Qed.

Theorem C01_history_snapshots :
  forall (c : cfg) (ops : list op) (w : world) (st : astate) (rs : list sres),
         cfg_wf c ->
         WRep c w st ->
         spec_run c st (unext (wuw w)) ops = Some rs ->
         Admissible c w ops ->
         Forall2
           (fun (sr : step_result) (r : sres) =>
            sr_out sr = s_out r /\
            sr_pkind sr = s_pk r /\
            sr_ret sr = s_ret r /\
            (forall (n : nat) (a : avec),
             get_a n (s_st r) = Some a ->
             exists v : vec,
               get_vec n (sr_world sr) = Some v /\
               snapshot c v = Some (a_xs a) /\ vlen v = N.of_nat (length (a_xs a)))) 
           (run_hist c ops w) rs.
Proof. exact history_snapshots. Qed.

Theorem C01_history_from_empty_world :
  forall (c : cfg) (ops : list op) (rs : list sres),
         cfg_wf c ->
         spec_run c [] 1 ops = Some rs ->
         Admissible c init_world ops -> Forall2 (obs_match c) (run_hist c ops init_world) rs.
Proof. exact history_from_init. Qed.

Theorem C01_admissibility_decidable :
  forall (c : cfg) (ops : list op) (w : world), Admissibleb c w ops = true -> Admissible c w ops.
Proof. exact Admissibleb_sound. Qed.

Theorem C01_example_admissible :
  Admissible ex_cfg init_world ex_ops.
Proof. exact ex_admissible. Qed.

Theorem C01_example_spec_defined :
  exists rs : list sres, spec_run ex_cfg [] 1 ex_ops = Some rs /\ length rs = length ex_ops.
Proof. exact ex_spec_defined. Qed.

(** a removal handle of another vector offered to push / insert = the same handle moved by its sink *)
Theorem C01_handle_sources_in_histories :
  forall (c : cfg) (w : world) (st : astate) (v : nat) (idx : option N) (src : nat) 
           (k : tkind) (sidx : N) (r : sres),
         cfg_wf c ->
         WRep c w st ->
         ufuse (wuw w) = None ->
         adm_vec c w v ->
         sp_offer_temp c st (unext (wuw w)) v idx src k sidx = Some r ->
         res_matches c w
           ((do o <- make_offer c (STemp src k sidx); offer_into c v o (raw_action c idx);; ret (0, [])) w) r.
Proof. exact exec_offer_temp. Qed.

(** what is done with a removal handle, by induction over the nesting of the sink *)
Theorem C01_sinks_in_histories :
  forall (c : cfg) (a : api) (sk : sink) (w : world) (st : astate) (vid : nat) 
           (av : avec) (k : tkind) (i : nat) (vv : vec) (h : temp) (r : sres),
         cfg_wf c ->
         WRep c w st ->
         get_a vid st = Some av ->
         temp_req k i (a_xs av) ->
         get_vec vid w = Some vv ->
         VI c vv av ->
         temp_for c vv (a_xs av) k i h ->
         ufuse (wuw w) = None ->
         (forall d : nat, In d (sink_dsts sk) -> d <> vid -> adm_many c w d (sink_count sk d)) ->
         sp_sink c st (unext (wuw w)) vid av k i sk = Some r ->
         match
           apply_sink c vid (known_of a) h sk (put_vec vid (Some (with_len (N.of_nat i) vv)) (wuw w) w)
         with
         | Ok rets w2 =>
             s_out r = 0 /\
             s_pk r = 0 /\ s_ret r = rets /\ step_ok c w w2 (s_st r) (s_evs r) (s_nx r - unext (wuw w))
         | Panic p w2 =>
             s_out r = 2 /\
             s_pk r = panic_code p /\
             s_ret r = [] /\ step_ok c w w2 (s_st r) (s_evs r) (s_nx r - unext (wuw w))
         | Fault _ => False
         end.
Proof. exact sink_spec. Qed.

(** a drained element as the value source of push / insert on another vector (erased: the Element itself, typed: the T read out of it), at any point of any history *)
Theorem C01_drained_sources_in_histories :
  forall (c : cfg) (w : world) (st : astate) (a : api) (vid : nat) (sb eb : bound)
           (pat : list (bool * sink)) (f : fin) (r : sres),
         cfg_wf c ->
         WRep c w st ->
         ufuse (wuw w) = None ->
         sp_drain_mv c st (unext (wuw w)) vid sb eb pat f = Some r ->
         adm_pat c w vid pat -> res_matches c w (exec c (ODrain a vid sb eb pat f) w) r.
Proof. exact exec_drain_mv. Qed.

(* ---- end histories ---- *)
Print Assumptions C01_snapshot.
Print Assumptions C01_new.
Print Assumptions C01_push.
Print Assumptions C01_insert.
Print Assumptions C01_insert_paths_agree.
Print Assumptions C01_insert_out_of_range.
Print Assumptions C01_push_full_fixed.
Print Assumptions C01_insert_full_fixed.
Print Assumptions C01_handle_new.
Print Assumptions C01_handle_reads_the_element.
Print Assumptions C01_handle_consumed.
Print Assumptions C01_handle_paths_agree.
Print Assumptions C01_handle_dropped.
Print Assumptions C01_clear.
Print Assumptions C01_get.
Print Assumptions C01_read.
Print Assumptions C01_pinned_copy_bytes_refuted.
Print Assumptions C01_step_refines.
Print Assumptions C01_history_refines.
Print Assumptions C01_history_snapshots.
Print Assumptions C01_history_from_empty_world.
Print Assumptions C01_admissibility_decidable.
Print Assumptions C01_example_admissible.
Print Assumptions C01_example_spec_defined.
Print Assumptions C01_handle_sources_in_histories.
Print Assumptions C01_sinks_in_histories.
Print Assumptions C01_drained_sources_in_histories.
