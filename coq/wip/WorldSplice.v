(** * Splice inside histories: the machine's [OSplice] refines [WorldSpec.sp_splice]. *)
From AV.Model Require Import Base Bytes Vec Ops Interp.
From AV.Spec Require Import VecSpec.
From AV.Proofs Require Import MemLemmas Rep VecProofs TempProofs RangeProofs CapProofs CloneProofs NoFault HandleProofs FaultProofs.
From WIP Require Import WorldSpec WorldCore.
Arguments N.add : simpl never.
Arguments N.sub : simpl never.
Arguments N.mul : simpl never.

(** how the replacement values are handed over: by value ([RWrap]) or boxed ([RBox]) *)
Definition rk_flag (rk : rkind) : bool := match rk with RWrap => true | _ => false end.

Lemma next_ids_S c nx n : next_ids c nx (S n) = tok c nx :: next_ids c (nx + 1) n.
Proof.
  unfold next_ids. cbn [seq map]. rewrite N.add_0_r. f_equal.
  rewrite <- seq_shift, map_map. apply map_ext. intros k. f_equal. lia.
Qed.
Lemma next_ids_length c nx n : length (next_ids c nx n) = n.
Proof. unfold next_ids. rewrite map_length, seq_length. reflexivity. Qed.
Lemma next_ids_tok_ok c nx n : Forall (tok_ok (szn c)) (next_ids c nx n).
Proof. unfold next_ids. apply Forall_forall. intros x Hx. apply in_map_iff in Hx. destruct Hx as (k & <- & _). apply tok_tok_ok. Qed.

Lemma rev_repeat {A} (x : A) n : rev (repeat x n) = repeat x n.
Proof.
  induction n as [|n IH]; [reflexivity|]. cbn [repeat rev]. rewrite IH.
  change (x :: repeat x n) with (repeat x (S n)). rewrite <- repeat_cons. reflexivity.
Qed.

Definition bump_by (k : N) (w : world) : world :=
  {| wv := wv w; wuw := {| ulog := ulog (wuw w); unext := unext (wuw w) + k; ufuse := ufuse (wuw w) |} |}.

(** the replacement values of an honest splice: fresh identities, the vector's element type *)
Lemma make_items_honest c rk : (rk = RWrap \/ rk = RBox) -> forall n i w,
  make_items c rk n i None w
  = Ok (map (fun t => honest_item c t (rk_flag rk)) (next_ids c (unext (wuw w)) n)) (bump_by (N.of_nat n) w).
Proof.
  intros Hrk. induction n as [|n IH]; intros i w.
  - cbn [make_items next_ids seq map]. unfold ret, bump_by. cbn [N.of_nat]. rewrite N.add_0_r.
    destruct w as [vs [l nx f]]; reflexivity.
  - cbn [make_items]. rewrite next_ids_S. cbn [map].
    set (w1 := {| wv := wv w; wuw := {| ulog := ulog (wuw w); unext := unext (wuw w) + 1; ufuse := ufuse (wuw w) |} |}).
    assert (Ef : freshw c w = Ok (tok c (unext (wuw w))) w1) by reflexivity.
    assert (Eb : bump_by (N.of_nat (S n)) w = bump_by (N.of_nat n) w1).
    { unfold bump_by, w1. cbn [wv wuw ulog unext ufuse]. do 2 f_equal. lia. }
    rewrite Eb.
    destruct Hrk as [-> | ->]; cbn [rk_flag];
      unfold bind at 1; unfold bind at 1; rewrite Ef; unfold ret at 1;
      unfold bind at 1; rewrite (IH (i + 1) w1); unfold ret; reflexivity.
Qed.

(** a splice whose preparation is refused: the replacement values are destroyed, once each, in order;
    the storage is as the live iterator left it *)
Lemma splice_drop_prep_panic c v u known d ts k p cl :
  ufuse u = None -> splice_prep c known d cl (v, u) = Panic p (v, u) ->
  exists u', splice_drop c known d cl (map (fun t => honest_item c t k) ts) (v, u) = Panic p (v, u') /\
    unext u' = unext u /\ ufuse u' = None /\
    uevents u' = (if c_dg c then rev (map EDrop ts) else []) ++ uevents u.
Proof.
  intros Hf Hprep.
  destruct (drop_items_ok c k v ts (disarm u) eq_refl) as [u1 [E1 [L1 [N1 F1]]]].
  exists {| ulog := ulog u1; unext := unext u1; ufuse := ufuse u |}.
  split; [|split; [|split]].
  - unfold splice_drop. apply bind_panic.
    unfold unwinding_st, on_unwind. rewrite Hprep.
    unfold quiet_st. cbn [fst snd]. rewrite E1. reflexivity.
  - cbn [unext]. rewrite N1. destruct u; reflexivity.
  - exact Hf.
  - unfold uevents. cbn [ulog]. rewrite L1, uevents_drops. f_equal; try (destruct u; reflexivity).
Qed.

Lemma splice_prep_capacity c v u xs s e i j known n :
  RangeAlive c v xs s e i j -> fixed_backend (vbk v) ->
  let new_len := (s + n + (length xs - e))%nat in
  vcap v < N.of_nat new_len -> N.of_nat new_len <= usize_max ->
  let d := {| dcur := {| ci := N.of_nat i; ce := N.of_nat j |};
              dstart := N.of_nat s; dend := N.of_nat e; dorig := N.of_nat (length xs) |} in
  splice_prep c known d (N.of_nat n) (v, u) = Panic PCapacity (v, u).
Proof.
  intros HA Hfix new_len Hlt Hmax d.
  destruct HA as [Hle Hlen Hcap Hus Hst Hp Hm Ht Htok].
  destruct Hle as [Hsi [Hij [Hje Hel]]].
  unfold splice_prep, d. cbn [dcur ci ce dend dstart dorig].
  unfold of_ovf, of_opt, checked_add.
  rewrite (proj2 (N.leb_le (N.of_nat s + N.of_nat n) usize_max)) by (unfold new_len in Hmax; lia).
  rewrite (bind_ok _ _ (v, u) _ (v, u) eq_refl).
  rewrite (proj2 (N.leb_le (N.of_nat s + N.of_nat n + (N.of_nat (length xs) - N.of_nat e)) usize_max))
    by (unfold new_len in Hmax; lia).
  rewrite (bind_ok _ _ (v, u) _ (v, u) eq_refl).
  apply bind_panic. apply reserve_fixed; [| |exact Hfix]; unfold new_len in *; lia.
Qed.

Lemma splice_prep_overflow c v u xs s e i j known n :
  RangeAlive c v xs s e i j ->
  usize_max < N.of_nat (s + n + (length xs - e)) ->
  let d := {| dcur := {| ci := N.of_nat i; ce := N.of_nat j |};
              dstart := N.of_nat s; dend := N.of_nat e; dorig := N.of_nat (length xs) |} in
  splice_prep c known d (N.of_nat n) (v, u) = Panic POverflow (v, u).
Proof.
  intros HA Hov d.
  destruct HA as [Hle Hlen Hcap Hus Hst Hp Hm Ht Htok].
  destruct Hle as [Hsi [Hij [Hje Hel]]].
  unfold splice_prep, d. cbn [dcur ci ce dend dstart dorig].
  unfold of_ovf, of_opt, checked_add.
  destruct (N.leb_spec (N.of_nat s + N.of_nat n) usize_max) as [H1|H1].
  - rewrite (bind_ok _ _ (v, u) _ (v, u) eq_refl).
    destruct (N.leb_spec (N.of_nat s + N.of_nat n + (N.of_nat (length xs) - N.of_nat e)) usize_max) as [H2|H2]; [lia|].
    reflexivity.
  - reflexivity.
Qed.

Lemma exec_splice c w st a vid sb eb pat f rk n wrong_at claimed r :
  cfg_wf c -> WRep c w st -> ufuse (wuw w) = None ->
  sp_splice c st (unext (wuw w)) vid sb eb pat f rk n wrong_at claimed = Some r ->
  adm_splice c w vid sb eb claimed ->
  res_matches c w (exec c (OSplice a vid sb eb pat f rk n wrong_at claimed) w) r.
Proof.
  intros Hwf HW Hfuse Hr Hadm.
  destruct (sp_splice_inv _ _ _ _ _ _ _ _ _ _ _ _ _ Hr) as (Hrk & -> & Hr').
  clear Hr. rename Hr' into Hr. unfold sp_splice in Hr.
  destruct (get_a vid st) as [av|] eqn:Hg; [|discriminate].
  destruct (wrep_get c w st vid av HW Hg) as (vv & Hgv & HV).
  pose proof (vi_rep _ _ _ HV) as HR. pose proof (rep_len _ _ _ HR) as Hlen.
  specialize (Hadm vv Hgv). rewrite Hlen in Hadm.
  set (xs := a_xs av) in *. cbv zeta in Hr.
  set (nn := N.to_nat n) in *.
  set (ts := next_ids c (unext (wuw w)) nn) in *.
  assert (Hlts : length ts = nn) by apply next_ids_length.
  assert (Hn : n = N.of_nat (length ts)) by (rewrite Hlts; unfold nn; lia).
  set (cl := N.to_nat claimed) in *.
  assert (Hcl' : claimed = N.of_nat cl) by (unfold cl; lia).
  set (w0 := bump_by (N.of_nat nn) w).
  assert (HW0 : WRep c w0 st) by (apply (wrep_wv c w w0 st eq_refl HW)).
  assert (Hgv0 : get_vec vid w0 = Some vv) by exact Hgv.
  assert (Hfuse0 : ufuse (wuw w0) = None) by exact Hfuse.
  assert (Hnx0 : unext (wuw w0) = unext (wuw w) + n) by (unfold w0, bump_by, nn; cbn [wuw unext]; lia).
  assert (Hev0 : uevents (wuw w0) = uevents (wuw w)) by reflexivity.
  set (items := map (fun t => honest_item c t (rk_flag rk)) ts).
  cbn [exec]. rewrite (bind_ok _ _ _ _ _ (peek_vec_ok vid w vv Hgv)).
  rewrite (bind_ok _ _ _ _ _ (make_items_honest c rk Hrk nn 0 w)). fold ts items w0.
  rewrite Hlen.
  (* relating a result relative to w0 to the step of w *)
  assert (Hstep : forall w' st' evs, step_ok c w0 w' st' evs 0 -> step_ok c w w' st' evs (unext (wuw w) + n - unext (wuw w))).
  { intros w' st' evs [R Nx F E]. constructor; auto; try (rewrite Nx, Hnx0; lia); try (rewrite E, Hev0; reflexivity). }
  destruct (range_of_bounds usize_max (N.of_nat (length xs)) (to_sb sb) (to_sb eb)) as [[sN eN]|] eqn:Erb.
  - destruct (into_range_ok _ sb eb (vv, wuw w0) sN eN Erb) as (Eir & Hse & Hel).
    set (s := N.to_nat sN) in *. set (e := N.to_nat eN) in *.
    assert (HsN : sN = N.of_nat s) by (unfold s; rewrite N2Nat.id; reflexivity).
    assert (HeN : eN = N.of_nat e) by (unfold e; rewrite N2Nat.id; reflexivity).
    assert (Hse' : (s <= e)%nat) by lia. assert (Hel' : (e <= length xs)%nat) by lia.
    rewrite (bind_ok _ _ _ _ _ (unwinding_okw _ _ _ _ _ (on_vec_ok vid _ w0 vv _ vv (wuw w0) Hgv0 Eir))). cbn [fst snd].
    set (w1 := put_vec vid (Some vv) (wuw w0) w0).
    set (vr := with_len (N.of_nat s) vv).
    pose proof (drain_new_spec c vv (wuw w0) xs s e HR Hse' Hel') as Edn. rewrite <- HsN, <- HeN in Edn.
    rewrite (bind_ok _ _ _ _ _ (on_vec_ok vid _ w1 vv _ _ _ (get_vec_put_same vid (Some vv) (wuw w0) w0) Edn)).
    rewrite HsN, HeN. fold vr.
    set (w2 := put_vec vid (Some vr) (wuw w1) w1).
    set (d := {| dcur := {| ci := N.of_nat s; ce := N.of_nat e |}; dstart := N.of_nat s; dend := N.of_nat e;
                 dorig := N.of_nat (length xs) |}).
    cbn [dcur].
    assert (Hwk0 : Walking w0 vid vv s w2 []).
    { constructor.
      - apply get_vec_put_same.
      - intros k Hne. unfold w2, w1, put_vec. cbn [wv]. rewrite !slot_set_nth.
        destruct (Nat.eqb_spec k vid); [contradiction|reflexivity].
      - reflexivity.
      - exact Hfuse0.
      - reflexivity. }
    destruct (sp_walk xs pat s e) as [[[[rets ds] i'] j']|] eqn:Ewalk; [|discriminate].
    set (finish := fun k : cursor => on_vec vid (splice_drop c (known_of a) (with_cur k d) claimed items)).
    destruct (walk_spec c w0 vid av vv s e a HV Hse' Hel' finish pat s e w2 [] rets ds i' j'
                Hwk0 (le_n s) Hse' (le_n e) Ewalk) as (ww' & Ew & Hwk & Hb1 & Hb2 & Hb3).
    cbn [app] in Hwk.
    rewrite (bind_ok _ _ _ _ _ Ew). cbn [fst snd].
    destruct Hwk as [Hv Ho Hnx Hf He].
    assert (Hcl : cur_len (dcur d) = N.of_nat (e - s)) by (unfold d, cur_len; cbn [dcur ci ce]; lia).
    (* the vector as a leaked / refused iterator leaves it *)
    assert (Hkept : forall u', WRep c (put_vec vid (Some vr) u' ww') (set_a vid (Some (with_xs av (firstn s xs))) st)).
    { intros u' k. unfold put_vec, set_a. cbn [wv]. rewrite !slot_set_nth.
      destruct (Nat.eqb_spec k vid) as [->|Hne].
      - apply vi_prefix; [exact HV|exact (Nat.le_trans _ _ _ Hse' Hel')].
      - rewrite (Ho k Hne). apply HW0. }
    destruct f.
    + (* the iterator is dropped *)
      pose proof (range_alive_any c vv xs s e i' j' HR Hb1 Hb2 Hb3 Hel') as HA. fold vr in HA.
      assert (Hnl : N.of_nat s + claimed + N.of_nat (length xs - e) = N.of_nat (s + cl + (length xs - e))) by lia.
      rewrite Hnl in Hr.
      assert (Hpanic : forall p, splice_prep c (known_of a) (with_cur {| ci := N.of_nat i'; ce := N.of_nat j' |} d) (N.of_nat cl) (vr, wuw ww')
                                 = Panic p (vr, wuw ww') ->
                r = panic_res p (flat_map (drop_ev c) ds ++ (if c_dg c then map EDrop ts else []))
                              (set_a vid (Some (with_xs av (firstn s xs))) st) (unext (wuw w) + n) ->
                res_matches c w ((finish {| ci := N.of_nat i'; ce := N.of_nat j' |};; ret (0, N.of_nat (e - s) :: rets)) ww') r).
      { intros p Hprep ->.
        destruct (splice_drop_prep_panic c vr (wuw ww') (known_of a) _ ts (rk_flag rk) p _ Hf Hprep) as (u' & Ed & Hn' & Hf' & He').
        assert (Efin : finish {| ci := N.of_nat i'; ce := N.of_nat j' |} ww' = Panic p (put_vec vid (Some vr) u' ww')).
        { unfold finish. apply (on_vec_panic vid _ ww' vr p vr u' Hv). rewrite Hcl' at 1. exact Ed. }
        rewrite (bind_panic _ _ _ _ _ Efin).
        cbn [res_matches panic_res s_out s_pk s_ret s_st s_evs s_nx].
        split; [reflexivity|split; [reflexivity|split; [reflexivity|]]].
        apply Hstep. constructor.
        - apply Hkept.
        - rewrite wuw_put. lia.
        - rewrite wuw_put. exact Hf'.
        - rewrite wuw_put. rewrite He', He. rewrite rev_app_distr.
          destruct (c_dg c); cbn [rev app]; rewrite <- ?app_assoc; try rewrite map_rev; reflexivity. }
      rewrite Hcl.
      destruct (N.ltb_spec usize_max (N.of_nat (s + cl + (length xs - e)))) as [Hov|Hnov].
      * injection Hr as Hr. apply (Hpanic POverflow); [|symmetry; exact Hr].
        apply (splice_prep_overflow c vr (wuw ww') xs s e i' j' (known_of a) cl HA Hov).
      * destruct (match acap c (a_bk av) with Some cap => cap <? N.of_nat (s + cl + (length xs - e)) | None => false end) eqn:Ecap.
        -- injection Hr as Hr. apply (Hpanic PCapacity); [|symmetry; exact Hr].
           destruct (acap c (a_bk av)) as [cap|] eqn:Ea; [|discriminate].
           apply N.ltb_lt in Ecap.
           assert (Hcapv : vcap vv = cap). { pose proof (vi_cap _ _ _ HV) as H. rewrite Ea in H. exact H. }
           apply (splice_prep_capacity c vr (wuw ww') xs s e i' j' (known_of a) cl HA).
           ++ unfold vr. cbn [with_len vbk]. rewrite (vi_bk _ _ _ HV). eapply acap_fixed; eauto.
           ++ unfold vr. cbn [with_len vcap]. lia.
           ++ exact Hnov.
        -- injection Hr as <-.
           assert (Hroom : N.of_nat (s + cl + (length xs - e)) <= vcap vr \/
                           grow_ok c vr (N.of_nat (s + cl + (length xs - e)))).
           { destruct (acap c (a_bk av)) as [cap|] eqn:Ea.
             - left. apply N.ltb_ge in Ecap. pose proof (vi_cap _ _ _ HV) as H. rewrite Ea in H.
               unfold vr. cbn [with_len vcap]. lia.
             - assert (Hnf : ~ fixed_backend (vbk vv)). { rewrite (vi_bk _ _ _ HV). eapply acap_none_not_fixed; eauto. }
               cbv zeta in Hadm.
               assert (Hx : sN + claimed + (N.of_nat (length xs) - eN) = N.of_nat (s + cl + (length xs - e))) by lia.
               rewrite Hx in Hadm.
               destruct Hadm as [H1|[H1|[H1|H1]]]; [left; exact H1|contradiction|lia|right; exact H1]. }
           destruct (splice_drop_liar_full c vr (wuw ww') xs s e i' j' (known_of a) ts (rk_flag rk) cl Hwf HA Hf
                       (next_ids_tok_ok _ _ _) Hroom)
             as (v' & u' & Ed & HR' & Hb' & Hn' & Hf' & He' & Hc').
           rewrite Hlts in HR', He'.
           assert (Efin : finish {| ci := N.of_nat i'; ce := N.of_nat j' |} ww' = Ok tt (put_vec vid (Some v') u' ww')).
           { unfold finish. apply (on_vec_ok vid _ ww' vr tt v' u' Hv). rewrite Hcl' at 1. exact Ed. }
           rewrite (bind_ok _ _ _ _ _ Efin). unfold ret.
           cbn [res_matches ok_res s_out s_pk s_ret s_st s_evs s_nx].
           split; [reflexivity|split; [reflexivity|split; [reflexivity|]]].
           apply Hstep. constructor.
           ++ intros k. unfold put_vec, set_a. cbn [wv]. rewrite !slot_set_nth.
              destruct (Nat.eqb_spec k vid) as [->|Hne].
              ** destruct HV as [HRv Hbk Hbw Hcap Hfits]. constructor; cbn [with_xs a_bk a_xs]; auto.
                 --- unfold vr in Hb'. cbn [with_len vbk] in Hb'. congruence.
                 --- destruct (acap c (a_bk av)) as [cap|] eqn:Ea; [|exact I].
                     apply N.ltb_ge in Ecap. rewrite Hc'; [unfold vr; cbn [with_len vcap]; exact Hcap|].
                     unfold vr. cbn [with_len vcap]. lia.
              ** rewrite (Ho k Hne). apply HW0.
           ++ rewrite wuw_put. lia.
           ++ rewrite wuw_put. exact Hf'.
           ++ rewrite wuw_put. rewrite He', He. rewrite !rev_app_distr.
              rewrite rev_repeat.
              destruct (c_dg c); cbn [rev app]; rewrite <- ?app_assoc; try rewrite map_rev; reflexivity.
    + (* the iterator is leaked: so are the replacement values *)
      injection Hr as <-. unfold ret, bind. rewrite Hcl.
      cbn [res_matches ok_res s_out s_pk s_ret s_st s_evs s_nx].
      split; [reflexivity|split; [reflexivity|split; [reflexivity|]]].
      apply Hstep. constructor.
      * intros k. unfold set_a. rewrite slot_set_nth.
        destruct (Nat.eqb_spec k vid) as [->|Hne].
        -- rewrite get_vec_slot in Hv. rewrite Hv. apply vi_prefix; [exact HV|exact (Nat.le_trans _ _ _ Hse' Hel')].
        -- rewrite (Ho k Hne). apply HW0.
      * lia.
      * exact Hf.
      * exact He.
  - (* invalid range: panics before the vector is touched; the replacement values are destroyed *)
    injection Hr as <-.
    pose proof (into_range_panic _ sb eb (vv, wuw w0) Erb) as Ep.
    pose proof (on_vec_panic vid _ w0 vv _ vv (wuw w0) Hgv0 Ep) as Ep'.
    set (w1 := put_vec vid (Some vv) (wuw w0) w0) in *.
    destruct (drop_items_ok c (rk_flag rk) vv ts (wuw w1) Hfuse0) as (u' & Ed & Hl & Hn' & Hf').
    assert (Ecl : quiet (on_vec vid (drop_items c items)) w1 = Ok tt (put_vec vid (Some vv) u' w1)).
    { apply quiet_none; [exact Hfuse0| |rewrite wuw_put; exact Hf'].
      apply (on_vec_ok vid _ w1 vv tt vv u'); [apply get_vec_put_same|exact Ed]. }
    assert (Eu : unwinding (on_vec vid (into_range (N.of_nat (length xs)) sb eb)) (on_vec vid (drop_items c items)) w0
                 = Panic (range_panic sb eb) (put_vec vid (Some vv) u' w1)).
    { unfold unwinding, on_unwind. rewrite Ep'. rewrite Ecl. reflexivity. }
    rewrite (bind_panic _ _ _ _ _ Eu).
    cbn [res_matches panic_res s_out s_pk s_ret s_st s_evs s_nx].
    split; [reflexivity|split; [reflexivity|split; [reflexivity|]]].
    apply Hstep. constructor.
    + apply (wrep_put_same c w1 st vid vv av); [|assumption|assumption].
      apply (wrep_put_same c w0 st vid vv av); assumption.
    + rewrite wuw_put, Hn'. unfold w1. rewrite wuw_put. lia.
    + rewrite wuw_put. exact Hf'.
    + rewrite wuw_put. unfold uevents at 1. rewrite Hl, uevents_drops. destruct (c_dg c); try rewrite map_rev; reflexivity.
Qed.
