(** * Operations that only look, inside histories: iter / iter_mut (any call pattern, cloned iterators,
      nth / nth_back), element handles, type probes, refused swaps - the machine refines [WorldSpec.sp_look]. *)
From AV.Model Require Import Base Bytes Vec Ops Interp.
From AV.Spec Require Import VecSpec.
From AV.Proofs Require Import MemLemmas Rep VecProofs TempProofs RangeProofs CapProofs CloneProofs NoFault HandleProofs.
From WIP Require Import WorldSpec WorldCore.
Arguments N.add : simpl never.
Arguments N.sub : simpl never.
Arguments N.mul : simpl never.

(** worlds met while looking: the same user world, the same slots *)
Definition same_world (w ww : world) : Prop := wuw ww = wuw w /\ forall n, slot n (wv ww) = slot n (wv w).

Lemma same_refl w : same_world w w.
Proof. split; reflexivity. Qed.
Lemma same_get w ww vid : same_world w ww -> get_vec vid ww = get_vec vid w.
Proof. intros [_ H]. rewrite !get_vec_slot. apply H. Qed.
Lemma same_put w ww vid vv :
  same_world w ww -> get_vec vid w = Some vv -> same_world w (put_vec vid (Some vv) (wuw ww) ww).
Proof.
  intros [Hu Hs] Hg. split.
  - rewrite wuw_put. exact Hu.
  - intros n. unfold put_vec. cbn [wv]. rewrite slot_set_nth.
    destruct (Nat.eqb_spec n vid) as [->|_]; [|apply Hs]. rewrite get_vec_slot in Hg. symmetry. exact Hg.
Qed.
Lemma same_step_ok c w ww st :
  WRep c w st -> ufuse (wuw w) = None -> same_world w ww -> step_ok c w ww st [] 0.
Proof.
  intros HW Hf [Hu Hs]. constructor.
  - intros n. rewrite Hs. apply HW.
  - rewrite Hu. lia.
  - rewrite Hu. exact Hf.
  - rewrite Hu. reflexivity.
Qed.

Section Looking.
Variables (c : cfg) (w : world) (vid : nat) (av : avec) (vv : vec).
Hypothesis Hgv : get_vec vid w = Some vv.
Hypothesis HV : VI c vv av.
Let xs := a_xs av.

Lemma look_tok idx : (idx < length xs)%nat -> tok_ok (szn c) (nth idx xs 0).
Proof.
  intros Hi. pose proof (rep_tok _ _ _ (vi_rep _ _ _ HV)) as Ht. rewrite Forall_forall in Ht.
  apply Ht. apply nth_In. exact Hi.
Qed.

(** [vecs[vid].at(idx)], decoded *)
Lemma look_elem ww idx :
  same_world w ww -> (idx < length xs)%nat ->
  (do bs <- Interp.elem_bytes c vid (N.of_nat idx); decode c bs) ww
  = Ok (nth idx xs 0) (put_vec vid (Some vv) (wuw ww) ww).
Proof.
  intros Hs Hi.
  assert (Hg : get_vec vid ww = Some vv) by (rewrite (same_get _ _ _ Hs); exact Hgv).
  pose proof (rep_len _ _ _ (vi_rep _ _ _ HV)) as Hlen. fold xs in Hlen.
  unfold Interp.elem_bytes. unfold bind at 1. unfold bind at 1. rewrite (peek_vec_ok vid ww vv Hg).
  unfold bind at 1. unfold assert_. rewrite Hlen.
  destruct (N.ltb_spec (N.of_nat idx) (N.of_nat (length xs))) as [_|Hge]; [|lia].
  unfold ret at 1.
  rewrite (on_vec_ok vid _ ww vv _ vv (wuw ww) Hg (read_elem c vv (wuw ww) xs idx (vi_rep _ _ _ HV) Hi)).
  unfold decode. rewrite (dec_enc _ _ (look_tok idx Hi)). reflexivity.
Qed.

Lemma walk_ro_spec : forall pat i j ww,
  same_world w ww -> (i <= j)%nat -> (j <= length xs)%nat ->
  exists ww', walk_ro c vid pat {| ci := N.of_nat i; ce := N.of_nat j |} ww = Ok (sp_walk_ro xs pat i j) ww' /\
              same_world w ww'.
Proof.
  induction pat as [|front pat IH]; intros i j ww Hs Hij Hj; cbn [walk_ro sp_walk_ro].
  - exists ww. split; [reflexivity|exact Hs].
  - destruct (Nat.eqb_spec i j) as [Heq|Hne].
    + assert (Hk : (if front then cur_next {| ci := N.of_nat i; ce := N.of_nat j |}
                    else cur_next_back {| ci := N.of_nat i; ce := N.of_nat j |})
                   = (None, {| ci := N.of_nat i; ce := N.of_nat j |})).
      { destruct front; [rewrite cur_next_nat|rewrite cur_next_back_nat];
          (destruct (Nat.eqb_spec i j); [reflexivity|contradiction]). }
      rewrite Hk. destruct (IH i j ww Hs Hij Hj) as (ww' & E & Hs').
      exists ww'. split; [|exact Hs']. rewrite (bind_ok _ _ _ _ _ E). unfold ret. rewrite cur_len_nat. reflexivity.
    + set (idx := if front then i else (j - 1)%nat).
      set (i1 := if front then S i else i). set (j1 := if front then j else (j - 1)%nat).
      assert (Hk : (if front then cur_next {| ci := N.of_nat i; ce := N.of_nat j |}
                    else cur_next_back {| ci := N.of_nat i; ce := N.of_nat j |})
                   = (Some (N.of_nat idx), {| ci := N.of_nat i1; ce := N.of_nat j1 |})).
      { unfold idx, i1, j1. destruct front; [rewrite cur_next_nat|rewrite cur_next_back_nat];
          (destruct (Nat.eqb_spec i j); [contradiction|reflexivity]). }
      rewrite Hk.
      assert (Hidx : (idx < length xs)%nat) by (unfold idx; destruct front; lia).
      pose proof (look_elem ww idx Hs Hidx) as El. unfold bind at 1 in El.
      destruct (Interp.elem_bytes c vid (N.of_nat idx) ww) as [bs wb|p wb|f] eqn:Eb; try discriminate.
      unfold bind at 1. rewrite Eb. unfold bind at 1. rewrite El.
      destruct (IH i1 j1 (put_vec vid (Some vv) (wuw ww) ww)) as (ww' & E & Hs').
      { apply same_put; assumption. }
      { unfold i1, j1; destruct front; lia. }
      { unfold j1; destruct front; lia. }
      exists ww'. split; [|exact Hs']. rewrite (bind_ok _ _ _ _ _ E). unfold ret. rewrite cur_len_nat. reflexivity.
Qed.

(** the cursor after the calls *)
Lemma adv_spec (adv : list bool -> cursor -> cursor) :
  (forall pat k, adv pat k = match pat with [] => k | f :: r => adv r (snd (if f then cur_next k else cur_next_back k)) end) ->
  forall pat i j, (i <= j)%nat ->
  adv pat {| ci := N.of_nat i; ce := N.of_nat j |}
  = {| ci := N.of_nat (fst (sp_adv pat i j)); ce := N.of_nat (snd (sp_adv pat i j)) |} /\
    (i <= fst (sp_adv pat i j))%nat /\ (fst (sp_adv pat i j) <= snd (sp_adv pat i j))%nat /\ (snd (sp_adv pat i j) <= j)%nat.
Proof.
  intros Hadv. induction pat as [|front pat IH]; intros i j Hij; rewrite Hadv; cbn [sp_adv].
  - cbn [fst snd]. split; [reflexivity|lia].
  - destruct (Nat.eqb_spec i j) as [Heq|Hne].
    + assert (Hk : snd (if front then cur_next {| ci := N.of_nat i; ce := N.of_nat j |}
                        else cur_next_back {| ci := N.of_nat i; ce := N.of_nat j |})
                   = {| ci := N.of_nat i; ce := N.of_nat j |}).
      { destruct front; [rewrite cur_next_nat|rewrite cur_next_back_nat];
          (destruct (Nat.eqb_spec i j); [reflexivity|contradiction]). }
      rewrite Hk. apply IH. exact Hij.
    + assert (Hk : snd (if front then cur_next {| ci := N.of_nat i; ce := N.of_nat j |}
                        else cur_next_back {| ci := N.of_nat i; ce := N.of_nat j |})
                   = {| ci := N.of_nat (if front then S i else i); ce := N.of_nat (if front then j else (j - 1)%nat) |}).
      { destruct front; [rewrite cur_next_nat|rewrite cur_next_back_nat];
          (destruct (Nat.eqb_spec i j); [contradiction|reflexivity]). }
      rewrite Hk.
      destruct (IH (if front then S i else i) (if front then j else (j - 1)%nat)) as (E & H1 & H2 & H3).
      { destruct front; lia. }
      split; [exact E|]. destruct front; lia.
Qed.

(** nth / nth_back = that many discarded calls, then one more *)
Lemma cur_skip_nat front : forall n i j, (i <= j)%nat ->
  cur_skip front n {| ci := N.of_nat i; ce := N.of_nat j |}
  = if (n <=? j - i)%nat
    then (if front then {| ci := N.of_nat (i + n); ce := N.of_nat j |} else {| ci := N.of_nat i; ce := N.of_nat (j - n) |})
    else (if front then {| ci := N.of_nat j; ce := N.of_nat j |} else {| ci := N.of_nat i; ce := N.of_nat i |}).
Proof.
  induction n as [|n IH]; intros i j Hij; cbn [cur_skip].
  - cbn [Nat.leb]. rewrite Nat.add_0_r, Nat.sub_0_r. destruct front; reflexivity.
  - destruct (Nat.eqb_spec i j) as [Heq|Hne].
    + assert (Hk : snd (if front then cur_next {| ci := N.of_nat i; ce := N.of_nat j |}
                        else cur_next_back {| ci := N.of_nat i; ce := N.of_nat j |})
                   = {| ci := N.of_nat i; ce := N.of_nat j |}).
      { destruct front; [rewrite cur_next_nat|rewrite cur_next_back_nat];
          (destruct (Nat.eqb_spec i j); [reflexivity|contradiction]). }
      rewrite Hk, (IH i j Hij). subst j.
      destruct (Nat.leb_spec n (i - i)) as [H1|H1]; destruct (Nat.leb_spec (S n) (i - i)) as [H2|H2]; try lia.
      * assert (n = 0)%nat by lia. subst n. rewrite Nat.add_0_r, Nat.sub_0_r. reflexivity.
      * reflexivity.
    + assert (Hk : snd (if front then cur_next {| ci := N.of_nat i; ce := N.of_nat j |}
                        else cur_next_back {| ci := N.of_nat i; ce := N.of_nat j |})
                   = {| ci := N.of_nat (if front then S i else i); ce := N.of_nat (if front then j else (j - 1)%nat) |}).
      { destruct front; [rewrite cur_next_nat|rewrite cur_next_back_nat];
          (destruct (Nat.eqb_spec i j); [contradiction|reflexivity]). }
      rewrite Hk. rewrite IH by (destruct front; lia).
      destruct front.
      * destruct (Nat.leb_spec n (j - S i)) as [H1|H1]; destruct (Nat.leb_spec (S n) (j - i)) as [H2|H2]; try lia.
        -- replace (S i + n)%nat with (i + S n)%nat by lia. reflexivity.
        -- reflexivity.
      * destruct (Nat.leb_spec n (j - 1 - i)) as [H1|H1]; destruct (Nat.leb_spec (S n) (j - i)) as [H2|H2]; try lia.
        -- replace (j - 1 - n)%nat with (j - S n)%nat by lia. reflexivity.
        -- reflexivity.
Qed.

Lemma walk_nth_spec : forall pat i j ww,
  same_world w ww -> (i <= j)%nat -> (j <= length xs)%nat ->
  exists ww', walk_nth c vid pat {| ci := N.of_nat i; ce := N.of_nat j |} ww = Ok (sp_walk_nth xs pat i j) ww' /\
              same_world w ww'.
Proof.
  induction pat as [|[front n] pat IH]; intros i j ww Hs Hij Hj; cbn [walk_nth sp_walk_nth].
  - exists ww. split; [reflexivity|exact Hs].
  - unfold cur_nth. rewrite (cur_skip_nat front (N.to_nat n) i j Hij).
    destruct (N.ltb_spec n (N.of_nat (j - i))) as [Hlt|Hge].
    + (* enough elements left *)
      set (k := N.to_nat n) in *.
      destruct (Nat.leb_spec k (j - i)) as [_|Hx]; [|lia].
      set (idx := if front then (i + k)%nat else (j - 1 - k)%nat).
      set (i1 := if front then (i + k + 1)%nat else i). set (j1 := if front then j else (j - 1 - k)%nat).
      assert (Hk : (if front then cur_next (if front then {| ci := N.of_nat (i + k); ce := N.of_nat j |} else {| ci := N.of_nat i; ce := N.of_nat (j - k) |})
                    else cur_next_back (if front then {| ci := N.of_nat (i + k); ce := N.of_nat j |} else {| ci := N.of_nat i; ce := N.of_nat (j - k) |}))
                   = (Some (N.of_nat idx), {| ci := N.of_nat i1; ce := N.of_nat j1 |})).
      { unfold idx, i1, j1. destruct front; [rewrite cur_next_nat|rewrite cur_next_back_nat].
        - destruct (Nat.eqb_spec (i + k) j); [lia|]. replace (S (i + k)) with (i + k + 1)%nat by lia. reflexivity.
        - destruct (Nat.eqb_spec i (j - k)); [lia|]. replace (j - k - 1)%nat with (j - 1 - k)%nat by lia. reflexivity. }
      rewrite Hk.
      assert (Hidx : (idx < length xs)%nat) by (unfold idx; destruct front; lia).
      pose proof (look_elem ww idx Hs Hidx) as El. unfold bind at 1 in El.
      destruct (Interp.elem_bytes c vid (N.of_nat idx) ww) as [bs wb|p wb|f] eqn:Eb; try discriminate.
      unfold bind at 1. rewrite Eb. unfold bind at 1. rewrite El.
      destruct (IH i1 j1 (put_vec vid (Some vv) (wuw ww) ww)) as (ww' & E & Hs').
      { apply same_put; assumption. }
      { unfold i1, j1; destruct front; lia. }
      { unfold j1; destruct front; lia. }
      exists ww'. split; [|exact Hs']. rewrite (bind_ok _ _ _ _ _ E). unfold ret. rewrite cur_len_nat. reflexivity.
    + (* fewer left: None, exhausted *)
      set (k := N.to_nat n) in *.
      set (p := if front then j else i).
      assert (Hk : (if front
                    then cur_next (if (k <=? j - i)%nat
                                   then (if front then {| ci := N.of_nat (i + k); ce := N.of_nat j |} else {| ci := N.of_nat i; ce := N.of_nat (j - k) |})
                                   else (if front then {| ci := N.of_nat j; ce := N.of_nat j |} else {| ci := N.of_nat i; ce := N.of_nat i |}))
                    else cur_next_back (if (k <=? j - i)%nat
                                   then (if front then {| ci := N.of_nat (i + k); ce := N.of_nat j |} else {| ci := N.of_nat i; ce := N.of_nat (j - k) |})
                                   else (if front then {| ci := N.of_nat j; ce := N.of_nat j |} else {| ci := N.of_nat i; ce := N.of_nat i |})))
                   = (None, {| ci := N.of_nat p; ce := N.of_nat p |})).
      { unfold p. destruct (Nat.leb_spec k (j - i)) as [Hle|Hgt].
        - assert (Hkk : k = (j - i)%nat) by lia.
          destruct front; [rewrite cur_next_nat|rewrite cur_next_back_nat].
          + destruct (Nat.eqb_spec (i + k) j); [|lia]. replace (i + k)%nat with j by lia. reflexivity.
          + destruct (Nat.eqb_spec i (j - k)); [|lia]. replace (j - k)%nat with i by lia. reflexivity.
        - destruct front; [rewrite cur_next_nat|rewrite cur_next_back_nat]; rewrite Nat.eqb_refl; reflexivity. }
      rewrite Hk.
      destruct (IH p p ww Hs (le_n p)) as (ww' & E & Hs'); [unfold p; destruct front; lia|].
      exists ww'. split; [|exact Hs']. rewrite (bind_ok _ _ _ _ _ E). unfold ret. rewrite cur_len_nat, Nat.sub_diag. reflexivity.
Qed.
End Looking.

Lemma exec_look c w st o r :
  cfg_wf c -> WRep c w st -> ufuse (wuw w) = None ->
  sp_look c st (unext (wuw w)) o = Some r ->
  res_matches c w (exec c o w) r.
Proof.
  intros Hwf HW Hfuse Hr.
  assert (Hok : forall ww out rets, same_world w ww ->
                 res_matches c w (Ok (out, rets) ww)
                   {| s_out := out; s_pk := 0; s_ret := rets; s_evs := []; s_st := st; s_nx := unext (wuw w) |}).
  { intros ww out rets Hs. cbn [res_matches s_out s_pk s_ret s_st s_evs s_nx].
    split; [reflexivity|split; [reflexivity|split; [reflexivity|]]]. rewrite N.sub_diag.
    apply same_step_ok; assumption. }
  destruct o; cbn [sp_look] in Hr; try discriminate.
  - (* OIter *)
    destruct (get_a v st) as [av|] eqn:Hg; [|discriminate]. injection Hr as <-.
    destruct (wrep_get c w st v av HW Hg) as (vv & Hgv & HV).
    pose proof (rep_len _ _ _ (vi_rep _ _ _ HV)) as Hlen.
    cbn [exec]. rewrite (bind_ok _ _ _ _ _ (peek_vec_ok v w vv Hgv)). rewrite Hlen.
    destruct (walk_ro_spec c w v av vv Hgv HV pat 0 (length (a_xs av)) w (same_refl w) (Nat.le_0_l _) (le_n _)) as (ww' & E & Hs).
    assert (Hk0 : forall L, {| ci := 0; ce := N.of_nat L |} = {| ci := N.of_nat 0; ce := N.of_nat L |}) by reflexivity. rewrite !Hk0.
    rewrite (bind_ok _ _ _ _ _ E). unfold ret.
    rewrite cur_len_nat, Nat.sub_0_r. apply (Hok ww' 0 _ Hs).
  - (* OIterClone *)
    destruct (get_a v st) as [av|] eqn:Hg; [|discriminate].
    destruct (wrep_get c w st v av HW Hg) as (vv & Hgv & HV).
    pose proof (rep_len _ _ _ (vi_rep _ _ _ HV)) as Hlen.
    set (xs := a_xs av) in *.
    cbn [exec]. rewrite (bind_ok _ _ _ _ _ (peek_vec_ok v w vv Hgv)). rewrite Hlen.
    destruct (walk_ro_spec c w v av vv Hgv HV pat1 0 (length xs) w (same_refl w) (Nat.le_0_l _) (le_n _)) as (w1 & E1 & Hs1).
    assert (Hk0 : forall L, {| ci := 0; ce := N.of_nat L |} = {| ci := N.of_nat 0; ce := N.of_nat L |}) by reflexivity. rewrite !Hk0.
    rewrite (bind_ok _ _ _ _ _ E1).
    match goal with |- context [(fix adv (pat : list bool) (k : cursor) {struct pat} : cursor := _) pat1 _] =>
      set (advf := (fix adv (pat : list bool) (k : cursor) {struct pat} : cursor :=
                      match pat with [] => k | f :: r => adv r (snd (if f then cur_next k else cur_next_back k)) end)) end.
    destruct (adv_spec advf ltac:(intros [|f0 r0] k0; reflexivity) pat1 0 (length xs) (Nat.le_0_l _)) as (Ea & H1 & H2 & H3).
    rewrite Ea.
    destruct (sp_adv pat1 0 (length xs)) as [i j] eqn:Eadv. cbn [fst snd] in *. injection Hr as <-.
    destruct (walk_ro_spec c w v av vv Hgv HV pat2 i j w1 Hs1 H2 H3) as (w2 & E2 & Hs2).
    rewrite (bind_ok _ _ _ _ _ E2).
    destruct (walk_ro_spec c w v av vv Hgv HV pat2 i j w2 Hs2 H2 H3) as (w3 & E3 & Hs3).
    rewrite (bind_ok _ _ _ _ _ E3). unfold ret.
    rewrite !cur_len_nat, Nat.sub_0_r.
    replace (N.of_nat (length xs) :: sp_walk_ro xs pat1 0 (length xs) ++ (N.of_nat (j - i) :: sp_walk_ro xs pat2 i j) ++ N.of_nat (j - i) :: sp_walk_ro xs pat2 i j)
      with (N.of_nat (length xs) :: sp_walk_ro xs pat1 0 (length xs) ++ N.of_nat (j - i) :: sp_walk_ro xs pat2 i j ++ N.of_nat (j - i) :: sp_walk_ro xs pat2 i j)
      by (cbn [app]; reflexivity).
    apply (Hok w3 0 _ Hs3).
  - (* OProbeTypes *)
    destruct (get_a v st) as [av|] eqn:Hg; [|discriminate]. injection Hr as <-.
    destruct (wrep_get c w st v av HW Hg) as (vv & Hgv & HV).
    pose proof (rep_len _ _ _ (vi_rep _ _ _ HV)) as Hlen.
    cbn [exec]. rewrite (bind_ok _ _ _ _ _ (peek_vec_ok v w vv Hgv)). rewrite Hlen.
    destruct (idx <? N.of_nat (length (a_xs av))); unfold ret; apply (Hok w 0 _ (same_refl w)).
  - (* OSwapWrong *)
    destruct (get_a v st) as [av|] eqn:Hg; [|discriminate].
    destruct (wrep_get c w st v av HW Hg) as (vv & Hgv & HV).
    pose proof (rep_len _ _ _ (vi_rep _ _ _ HV)) as Hlen.
    cbn [exec]. rewrite (bind_ok _ _ _ _ _ (peek_vec_ok v w vv Hgv)). rewrite Hlen.
    unfold bind at 1. unfold assert_.
    destruct (idx <? N.of_nat (length (a_xs av))); injection Hr as <-.
    + unfold ret at 1. unfold bind at 1. unfold freshw at 1.
      unfold unwinding, on_unwind, raise, quiet, harness_drop. cbn [wuw wv ulog unext ufuse].
      rewrite Hfuse. cbn [disarm].
      cbn [res_matches panic_res s_out s_pk s_ret s_st s_evs s_nx].
      unfold drop_ev, tok. destruct (c_dg c).
      * unfold emitw. cbn [wuw wv ulog unext ufuse emit].
        split; [reflexivity|split; [reflexivity|split; [reflexivity|]]].
        constructor; cbn [wuw wv ulog unext ufuse disarm panic_res s_nx]; auto; try lia.
      * unfold ret. cbn [wuw wv ulog unext ufuse].
        split; [reflexivity|split; [reflexivity|split; [reflexivity|]]].
        constructor; cbn [wuw wv ulog unext ufuse disarm panic_res s_nx]; auto; try lia.
    + unfold raise. cbn [res_matches panic_res s_out s_pk s_ret s_st s_evs s_nx].
      split; [reflexivity|split; [reflexivity|split; [reflexivity|]]]. rewrite N.sub_diag.
      apply step_ok_refl; assumption.
  - (* ORead *)
    destruct (get_a v st) as [av|] eqn:Hg; [|discriminate].
    destruct (wrep_get c w st v av HW Hg) as (vv & Hgv & HV).
    pose proof (vi_rep _ _ _ HV) as HR. pose proof (rep_len _ _ _ HR) as Hlen.
    cbn [exec]. rewrite (bind_ok _ _ _ _ _ (peek_vec_ok v w vv Hgv)). rewrite Hlen.
    destruct (N.ltb_spec idx (N.of_nat (length (a_xs av)))) as [Hlt|Hge]; injection Hr as <-.
    + assert (Hi : (N.to_nat idx < length (a_xs av))%nat) by lia.
      pose proof (read_elem c vv (wuw w) (a_xs av) (N.to_nat idx) HR Hi) as Er. rewrite N2Nat.id in Er.
      rewrite (bind_ok _ _ _ _ _ (on_vec_ok v _ w vv _ vv (wuw w) Hgv Er)).
      unfold bind at 1. unfold decode. rewrite (dec_enc _ _ (look_tok c av vv HV (N.to_nat idx) Hi)). unfold ret.
      apply (Hok _ 0). apply same_put; [apply same_refl|exact Hgv].
    + unfold ret. cbn [res_matches none_res s_out s_pk s_ret s_st s_evs s_nx].
      split; [reflexivity|split; [reflexivity|split; [reflexivity|]]]. rewrite N.sub_diag.
      apply step_ok_refl; assumption.
  - (* OPlacement *)
    injection Hr as <-. cbn [exec]. unfold ret. apply (Hok w 0 _ (same_refl w)).
  - (* OIterNth *)
    destruct (get_a v st) as [av|] eqn:Hg; [|discriminate]. injection Hr as <-.
    destruct (wrep_get c w st v av HW Hg) as (vv & Hgv & HV).
    pose proof (rep_len _ _ _ (vi_rep _ _ _ HV)) as Hlen.
    cbn [exec]. rewrite (bind_ok _ _ _ _ _ (peek_vec_ok v w vv Hgv)). rewrite Hlen.
    destruct (walk_nth_spec c w v av vv Hgv HV pat 0 (length (a_xs av)) w (same_refl w) (Nat.le_0_l _) (le_n _)) as (ww' & E & Hs).
    assert (Hk0 : forall L, {| ci := 0; ce := N.of_nat L |} = {| ci := N.of_nat 0; ce := N.of_nat L |}) by reflexivity. rewrite !Hk0.
    rewrite (bind_ok _ _ _ _ _ E). unfold ret.
    rewrite cur_len_nat, Nat.sub_0_r. apply (Hok ww' 0 _ Hs).
Qed.
