(** * The byte-level machine refines the list specification for whole histories. *)
From AV.Model Require Import Base Bytes Vec Ops Interp.
From AV.Spec Require Import VecSpec.
From AV.Proofs Require Import MemLemmas Rep VecProofs TempProofs RangeProofs CapProofs CloneProofs NoFault HandleProofs.
From WIP Require Import WorldSpec.
Arguments N.add : simpl never.
Arguments N.sub : simpl never.
Arguments N.mul : simpl never.
From WIP Require Export WorldCore WorldSplice WorldRead WorldMore WorldDrain WorldWrong.

Lemma exec_refines_step c w st o r :
  cfg_wf c -> WRep c w st -> ufuse (wuw w) = None ->
  spec_step c st (unext (wuw w)) o = Some r -> admissible c w o ->
  res_matches c w (exec c o w) r.
Proof.
  intros Hwf HW Hfuse Hr Hadm.
  destruct o; cbn [spec_step] in Hr; try discriminate; try exact (exec_look c w st _ r Hwf HW Hfuse Hr).
  - (* ONew *)
    cbn [admissible] in Hadm. cbn [exec].
    exact (exec_build c w st dst bk _ r HW Hfuse Hadm Hr).
  - (* OWithCapacity *)
    cbn [admissible] in Hadm. exact (exec_withcap c w st dst bk n r Hwf HW Hfuse Hr Hadm).
  - (* ODropVec *)
    destruct (get_a v st) as [av|] eqn:Hg; [|discriminate]. injection Hr as <-.
    destruct (wrep_get c w st v av HW Hg) as (vv & Hgv & HV).
    destruct (drop_vec_ok c vv (wuw w) (a_xs av) (vi_rep _ _ _ HV) Hfuse) as (v' & u' & E & Hn & Hf & He).
    cbn [exec]. rewrite Hgv. rewrite (on_vec_ok v _ w vv tt v' u' Hgv E).
    cbn [res_matches ok_res s_out s_pk s_ret s_st s_evs s_nx].
    split; [reflexivity|split; [reflexivity|split; [reflexivity|]]]. rewrite N.sub_diag.
    constructor.
    + intros n. rewrite wuw_put. rewrite put_put_slot. apply (wrep_put c w st v None None u' HW). exact I.
    + rewrite !wuw_put. lia.
    + rewrite !wuw_put. exact Hf.
    + rewrite !wuw_put. exact He.
  - (* OPush *)
    destruct (fresh_src s) eqn:Hs.
    + cbn [admissible] in Hadm. exact (exec_offer c w st a v s None Hwf HW Hfuse Hs Hadm r Hr).
    + destruct s; try (destruct a; discriminate).
      * destruct a; [|discriminate]. cbn [exec]. apply (exec_offer_wrong c w st v _ k _ r HW Hfuse (or_introl eq_refl) Hr).
      * destruct a; [|discriminate]. cbn [exec]. apply (exec_offer_wrong c w st v _ k _ r HW Hfuse (or_intror eq_refl) Hr).
      * cbn [admissible] in Hadm.
        assert (Hr' : sp_offer_lazy c st (unext (wuw w)) v None vid idx = Some r) by (destruct a; exact Hr).
        exact (exec_offer_lazy c w st a v None depth vid idx r Hwf HW Hfuse Hadm Hr').
      * destruct a; [|discriminate]. cbn [admissible] in Hadm. cbn [exec].
        exact (exec_offer_temp c w st v None vid k idx r Hwf HW Hfuse Hadm Hr).
      * destruct a; [|discriminate]. cbn [admissible] in Hadm. cbn [exec].
        exact (exec_offer_userlazy c w st v None depth r Hwf HW Hfuse Hadm Hr).
  - (* OInsert *)
    destruct (fresh_src s) eqn:Hs.
    + cbn [admissible] in Hadm. exact (exec_offer c w st a v s (Some idx) Hwf HW Hfuse Hs Hadm r Hr).
    + destruct s; try (destruct a; discriminate).
      * destruct a; [|discriminate]. cbn [exec]. apply (exec_offer_wrong c w st v _ k _ r HW Hfuse (or_introl eq_refl) Hr).
      * destruct a; [|discriminate]. cbn [exec]. apply (exec_offer_wrong c w st v _ k _ r HW Hfuse (or_intror eq_refl) Hr).
      * cbn [admissible] in Hadm.
        assert (Hr' : sp_offer_lazy c st (unext (wuw w)) v (Some idx) vid idx0 = Some r) by (destruct a; exact Hr).
        exact (exec_offer_lazy c w st a v (Some idx) depth vid idx0 r Hwf HW Hfuse Hadm Hr').
      * destruct a; [|discriminate]. cbn [admissible] in Hadm. cbn [exec].
        exact (exec_offer_temp c w st v (Some idx) vid k idx0 r Hwf HW Hfuse Hadm Hr).
      * destruct a; [|discriminate]. cbn [admissible] in Hadm. cbn [exec].
        exact (exec_offer_userlazy c w st v (Some idx) depth r Hwf HW Hfuse Hadm Hr).
  - (* OPop *)
    cbn [admissible] in Hadm.
    exact (exec_take c w st a v TPop 0 k r Hwf HW Hfuse (fun _ => eq_refl) Hadm Hr).
  - (* ORemove *)
    cbn [admissible] in Hadm.
    exact (exec_take c w st a v TRemove idx k r Hwf HW Hfuse ltac:(discriminate) Hadm Hr).
  - (* OSwapRemove *)
    cbn [admissible] in Hadm.
    exact (exec_take c w st a v TSwapRemove idx k r Hwf HW Hfuse ltac:(discriminate) Hadm Hr).
  - (* OClear *)
    destruct (get_a v st) as [av|] eqn:Hg; [|discriminate]. injection Hr as <-.
    destruct (wrep_get c w st v av HW Hg) as (vv & Hgv & HV).
    destruct (clear_ok c vv (wuw w) (a_xs av) (vi_rep _ _ _ HV) Hfuse) as (v' & u' & E & HR' & Hc & Hb & Hn & Hf & Hl).
    cbn [exec]. unfold bind. rewrite (on_vec_ok v _ w vv tt v' u' Hgv E). unfold ret.
    cbn [res_matches ok_res s_out s_pk s_ret s_st s_evs s_nx].
    split; [reflexivity|split; [reflexivity|split; [reflexivity|]]]. rewrite N.sub_diag.
    constructor.
    + apply wrep_put; [exact HW|]. destruct HV as [HR Hbk Hbw Hcap Hfits].
      constructor; cbn [with_xs a_bk a_xs]; auto; try congruence.
      destruct (acap c (a_bk av)); [congruence|exact I].
    + rewrite wuw_put. lia.
    + rewrite wuw_put. exact Hf.
    + rewrite wuw_put. unfold uevents. rewrite Hl, filter_app. f_equal.
      destruct (c_dg c); [|reflexivity].
      rewrite <- map_rev. induction (rev (a_xs av)) as [|x l IH]; [reflexivity|].
      cbn [map filter is_user_event]. f_equal. exact IH.
  - (* OGet *)
    destruct (get_a v st) as [av|] eqn:Hg; [|discriminate].
    destruct (wrep_get c w st v av HW Hg) as (vv & Hgv & HV).
    pose proof (vi_rep _ _ _ HV) as HR.
    cbn [exec]. unfold bind at 1. rewrite (peek_vec_ok v w vv Hgv).
    rewrite (get_ptr_spec c vv (a_xs av) idx HR).
    destruct (N.ltb_spec idx (N.of_nat (length (a_xs av)))) as [Hlt|Hge]; injection Hr as <-.
    + assert (Hi : (N.to_nat idx < length (a_xs av))%nat) by lia.
      pose proof (read_elem c vv (wuw w) (a_xs av) (N.to_nat idx) HR Hi) as Er. rewrite N2Nat.id in Er.
      unfold bind at 1. rewrite (on_vec_ok v _ w vv _ vv (wuw w) Hgv Er).
      unfold bind at 1. unfold decode.
      assert (Ht : tok_ok (szn c) (nth (N.to_nat idx) (a_xs av) 0)).
      { pose proof (rep_tok _ _ _ HR) as Ht. rewrite Forall_forall in Ht. apply Ht. apply nth_In. exact Hi. }
      rewrite (dec_enc _ _ Ht). unfold ret.
      cbn [res_matches ok_res s_out s_pk s_ret s_st s_evs s_nx].
      split; [reflexivity|split; [reflexivity|split; [reflexivity|]]]. rewrite N.sub_diag.
      constructor.
      * apply (wrep_put_same c w st v vv av); assumption.
      * rewrite wuw_put. lia.
      * rewrite wuw_put. exact Hfuse.
      * rewrite wuw_put. reflexivity.
    + unfold ret. cbn [res_matches none_res s_out s_pk s_ret s_st s_evs s_nx].
      split; [reflexivity|split; [reflexivity|split; [reflexivity|]]]. rewrite N.sub_diag.
      apply step_ok_refl; assumption.
  - (* OAt *)
    destruct (get_a v st) as [av|] eqn:Hg; [|discriminate].
    destruct (wrep_get c w st v av HW Hg) as (vv & Hgv & HV).
    pose proof (vi_rep _ _ _ HV) as HR. pose proof (rep_len _ _ _ HR) as Hlen.
    cbn [exec]. unfold bind at 1. unfold Interp.elem_bytes. unfold bind at 1. rewrite (peek_vec_ok v w vv Hgv).
    unfold bind at 1. unfold assert_. rewrite Hlen.
    destruct (N.ltb_spec idx (N.of_nat (length (a_xs av)))) as [Hlt|Hge]; injection Hr as <-.
    + assert (Hi : (N.to_nat idx < length (a_xs av))%nat) by lia.
      pose proof (read_elem c vv (wuw w) (a_xs av) (N.to_nat idx) HR Hi) as Er. rewrite N2Nat.id in Er.
      unfold ret at 1. rewrite (on_vec_ok v _ w vv _ vv (wuw w) Hgv Er).
      unfold bind at 1. unfold decode.
      assert (Ht : tok_ok (szn c) (nth (N.to_nat idx) (a_xs av) 0)).
      { pose proof (rep_tok _ _ _ HR) as Ht. rewrite Forall_forall in Ht. apply Ht. apply nth_In. exact Hi. }
      rewrite (dec_enc _ _ Ht). unfold ret.
      cbn [res_matches ok_res s_out s_pk s_ret s_st s_evs s_nx].
      split; [reflexivity|split; [reflexivity|split; [reflexivity|]]]. rewrite N.sub_diag.
      constructor.
      * apply (wrep_put_same c w st v vv av); assumption.
      * rewrite wuw_put. lia.
      * rewrite wuw_put. exact Hfuse.
      * rewrite wuw_put. reflexivity.
    + unfold raise. cbn [res_matches panic_res s_out s_pk s_ret s_st s_evs s_nx].
      split; [reflexivity|split; [reflexivity|split; [reflexivity|]]]. rewrite N.sub_diag.
      apply step_ok_refl; assumption.
  - (* ODrain *)
    destruct (sp_drain c st (unext (wuw w)) v sb eb pat f) as [r0|] eqn:Ed.
    + injection Hr as <-. exact (exec_drain c w st a v sb eb pat f r0 Hwf HW Hfuse Ed).
    + cbn [admissible] in Hadm. exact (exec_drain_mv c w st a v sb eb pat f r Hwf HW Hfuse Hr (adm_pat_of c w v pat Hadm)).
  - (* OSplice *)
    cbn [admissible] in Hadm. destruct Hadm as [Hadm Hadmp].
    assert (Hgen : forall rk' wa',
              match sp_splice c st (unext (wuw w)) v sb eb pat f rk' n wa' claimed with
              | Some r0 => Some r0
              | None => sp_splice_mv c st (unext (wuw w)) v sb eb pat f rk' n wa' claimed
              end = Some r ->
              res_matches c w (exec c (OSplice a v sb eb pat f rk' n wa' claimed) w) r).
    { intros rk' wa' H'. destruct (sp_splice c st (unext (wuw w)) v sb eb pat f rk' n wa' claimed) as [r0|] eqn:Es.
      - injection H' as <-. exact (exec_splice c w st a v sb eb pat f rk' n wa' claimed r0 Hwf HW Hfuse Es Hadm).
      - exact (exec_splice_mv c w st a v sb eb pat f rk' n wa' claimed r Hwf HW Hfuse H' Hadm (adm_pat_of c w v pat Hadmp)). }
    destruct wrong_at as [j|].
    { assert (Hr2 : sp_splice_wrong c st (unext (wuw w)) v sb eb pat f rk n j claimed = Some r) by (destruct rk; exact Hr).
      exact (exec_splice_wrong c w st a v sb eb pat f rk n j claimed r Hwf HW Hfuse Hr2 Hadm). }
    destruct rk as [| |src]; [exact (Hgen RWrap None Hr)|exact (Hgen RBox None Hr)|].
    exact (exec_splice_lazy c w st a v sb eb pat f src n claimed r Hwf HW Hfuse Hr Hadm).
  - (* OClone *)
    cbn [admissible] in Hadm. exact (exec_clone c w st v dst r Hwf HW Hfuse Hr Hadm).
  - (* OCloneEmpty *)
    destruct (get_a v st) as [av|] eqn:Hg; [|discriminate].
    destruct (Nat.eqb dst v); [discriminate|].
    destruct (wrep_get c w st v av HW Hg) as (sv & Hgv & HV).
    cbn [exec]. rewrite (bind_ok _ _ _ _ _ (peek_vec_ok v w sv Hgv)). rewrite (vi_bk _ _ _ HV).
    exact (exec_build c w st dst (a_bk av) sv r HW Hfuse (vi_wf _ _ _ HV) Hr).
  - (* OCloneEmptyIn *)
    destruct (get_a v st) as [av|] eqn:Hg; [|discriminate].
    destruct (Nat.eqb dst v); [discriminate|].
    destruct (wrep_get c w st v av HW Hg) as (sv & Hgv & HV).
    cbn [admissible] in Hadm.
    cbn [exec]. rewrite (bind_ok _ _ _ _ _ (peek_vec_ok v w sv Hgv)).
    exact (exec_build c w st dst bk sv r HW Hfuse Hadm Hr).
  - (* OReserve *)
    cbn [admissible] in Hadm. cbn [exec].
    apply (exec_capacity c w st v (Some n) false r Hwf HW Hfuse Hr Hadm (reserve c n)).
    + intros n0 H. injection H as <-. reflexivity.
    + discriminate.
  - (* OReserveExact *)
    cbn [admissible] in Hadm. cbn [exec].
    apply (exec_capacity c w st v (Some n) true r Hwf HW Hfuse Hr Hadm (reserve_exact c n)).
    + intros n0 H. injection H as <-. reflexivity.
    + discriminate.
  - (* OShrinkToFit *)
    cbn [admissible] in Hadm. cbn [exec].
    apply (exec_capacity c w st v None false r Hwf HW Hfuse Hr Hadm (shrink_to_fit c)).
    + discriminate.
    + intros _. left. reflexivity.
  - (* OShrinkTo *)
    cbn [admissible] in Hadm. cbn [exec].
    apply (exec_capacity c w st v None false r Hwf HW Hfuse Hr Hadm (shrink_to c n)).
    + discriminate.
    + intros _. right. eexists. reflexivity.
  - (* OViews *) exact (exec_views c w st v r HW Hfuse Hr).
  - (* OSpareWrite *)
    cbn [admissible] in Hadm. exact (exec_spare_write c w st a v k r Hwf HW Hfuse Hr Hadm).
  - (* ODownWrong *)
    destruct (sp_take c st (unext (wuw w)) v k (match k with TPop => 0 | _ => idx end) KDrop) as [r0|] eqn:E0; [|discriminate].
    injection Hr as <-. exact (exec_down_wrong c w st v k idx r0 Hwf HW Hfuse E0).
  - (* OWrite *)
    exact (exec_write c w st hk v idx r HW Hfuse Hr).
  - (* OSwap *)
    destruct (N.eqb_spec pr 0) as [->|Hpr]; [exact (exec_swap c w st v1 i v2 j r HW Hfuse Hr)|].
    exact (exec_swap_temp c w st pr v1 i v2 j r Hwf HW Hfuse Hpr Hr).
  - (* OLazyDown *)
    exact (exec_lazy_down c w st depth v idx r Hwf HW Hfuse Hr).
Qed.

(** ** One [run_step] (what the harness and the extracted model execute per script step) *)
Ltac crush H := repeat (match type of H with
  | Some _ = Some _ => injection H as <-
  | None = Some _ => discriminate H
  | inr _ = inr _ => injection H as <-
  | inl _ = inr _ => discriminate H
  | context [match ?x with _ => _ end] => destruct x eqn:?
  | context [if ?x then _ else _] => destruct x eqn:? end).
Lemma sp_offer_nx c st nx v idx r : sp_offer c st nx v idx = Some r -> nx <= s_nx r /\ s_out r < 100.
Proof. unfold sp_offer. intros H. crush H; cbn; split; lia. Qed.
Lemma sp_take_elem_small c st nx v a k i sk r : sp_take_elem c st nx v a k i sk = Some r -> s_out r < 100.
Proof. unfold sp_take_elem. cbv zeta. intros H. crush H; cbn; lia. Qed.
Lemma sp_sink_small c : forall sk st nx v a k i r, sp_sink c st nx v a k i sk = Some r -> s_out r < 100.
Proof.
  induction sk as [| |d|d j| |sk' IH|n0 d0 sk' IH|n0 sk' IH|]; intros st nx v a k i r H; cbn [sp_sink] in H;
    try (exact (sp_take_elem_small _ _ _ _ _ _ _ _ _ H)).
  - cbv zeta in H. destruct (sp_sink c _ (nx + 1) v _ k i sk') as [r'|] eqn:E; [|discriminate].
    apply IH in E. injection H as <-. exact E.
  - destruct (Nat.eqb d0 v); [discriminate|]. destruct (get_a d0 st) as [b|]; [|discriminate].
    destruct (sp_lazy_pushes c b (nth i (a_xs a) 0) nx (N.to_nat n0)) as [[[b1 e1] n1] o1].
    destruct o1.
    + destruct (sp_sink c _ n1 v a k i sk') as [r'|] eqn:E; [|discriminate].
      apply IH in E. injection H as <-. exact E.
    + injection H as <-. cbn [panic_res s_out]. lia.
  - cbv zeta in H. destruct (sp_sink c st (nx + n0) v a k i sk') as [r'|] eqn:E; [|discriminate].
    apply IH in E. injection H as <-. exact E.
Qed.
Lemma sp_take_nx c st nx v k idx sk r : sp_take c st nx v k idx sk = Some r -> nx <= s_nx r /\ s_out r < 100.
Proof.
  unfold sp_take. cbv zeta. intros H.
  destruct (get_a v st) as [a|]; [|discriminate].
  destruct k;
    repeat match type of H with
    | context [if ?x then _ else _] => destruct x eqn:?
    end;
    try (injection H as <-; cbn; split; lia);
    (split; [exact (sp_sink_nx _ _ _ _ _ _ _ _ _ H)|exact (sp_sink_small _ _ _ _ _ _ _ _ _ H)]).
Qed.
Lemma sp_capacity_nx c st nx v want exact r : sp_capacity c st nx v want exact = Some r -> nx <= s_nx r /\ s_out r < 100.
Proof. unfold sp_capacity. cbv zeta. intros H. crush H; cbn; split; lia. Qed.
Lemma sp_drain_nx c st nx v sb eb pat f r : sp_drain c st nx v sb eb pat f = Some r -> nx <= s_nx r /\ s_out r < 100.
Proof. unfold sp_drain. cbv zeta. intros H. crush H; cbn; split; lia. Qed.
Lemma sp_item_nx c v : forall sk st nx t,
  match sp_item c v st nx t sk with
  | Some (inl (_, _, _, _, nx1)) => nx <= nx1
  | Some (inr (_, _, _, nx1)) => nx <= nx1
  | None => True
  end.
Proof.
  induction sk as [| |dst|dst j| |sk' IH|n0 dst sk' IH|n0 sk' IH|]; intros st nx t; cbn [sp_item]; try lia; try exact I.
  - destruct (Nat.eqb dst v); [exact I|]. destruct (get_a dst st) as [b|]; [|exact I].
    destruct (put_value c b None t); lia.
  - destruct (Nat.eqb dst v); [exact I|]. destruct (get_a dst st) as [b|]; [|exact I].
    destruct (put_value c b (Some j) t); lia.
  - destruct (Nat.eqb dst v); [exact I|]. destruct (get_a dst st) as [b|]; [|exact I].
    destruct (sp_lazy_pushes c b t nx (N.to_nat n0)) as [[[b' evs] nx'] ok] eqn:Esp.
    destruct (sp_lazy_pushes_nx c t _ _ _ _ _ _ _ Esp) as (Hge & _).
    destruct ok; [|exact Hge].
    specialize (IH (set_a dst (Some b') st) nx' t).
    destruct (sp_item c v (set_a dst (Some b') st) nx' t sk') as [[[[[[out evs2] st2] lost2] nx2]|[[[p evs2] st2] nx2]]|]; try exact I; lia.
  - specialize (IH st (nx + n0) t).
    destruct (sp_item c v st (nx + n0) t sk') as [[[[[[out evs2] st2] lost2] nx2]|[[[p evs2] st2] nx2]]|]; try exact I; lia.
Qed.
Definition wres_nx (r : wres) : N := match r with WDone _ _ _ _ _ _ n | WStop _ _ _ _ _ _ n => n end.
Lemma sp_walk_mv_nx c v xs : forall pat i j st nx r, sp_walk_mv c v xs pat i j st nx = Some r -> nx <= wres_nx r.
Proof.
  induction pat as [|[front sk] pat IH]; intros i j st nx r H; cbn [sp_walk_mv] in H.
  - injection H as <-. cbn. lia.
  - destruct (i =? j)%nat.
    + destruct (sp_walk_mv c v xs pat i j st nx) as [r0|] eqn:E; [|discriminate].
      apply IH in E. destruct r0; injection H as <-; exact E.
    + match type of H with context [sp_item c v st nx ?t sk] => pose proof (sp_item_nx c v sk st nx t) as Hi;
        destruct (sp_item c v st nx t sk) as [[[[[[out evs0] st1] lost0] nx1]|[[[p evs0] st1] nx1]]|] end; [| |discriminate].
      * match type of H with context [sp_walk_mv c v xs pat ?i1 ?j1 st1 nx1] =>
          destruct (sp_walk_mv c v xs pat i1 j1 st1 nx1) as [r0|] eqn:E end; [|discriminate].
        apply IH in E. destruct r0; injection H as <-; cbn [wres_nx] in *; lia.
      * injection H as <-. exact Hi.
Qed.
Lemma sp_drain_mv_nx c st nx v sb eb pat f r : sp_drain_mv c st nx v sb eb pat f = Some r -> nx <= s_nx r /\ s_out r < 100.
Proof.
  unfold sp_drain_mv. cbv zeta. intros H.
  destruct (get_a v st) as [a|]; [|discriminate].
  destruct (range_of_bounds usize_max (N.of_nat (length (a_xs a))) (to_sb sb) (to_sb eb)) as [[s e]|]; [|injection H as <-; cbn; split; lia].
  match type of H with context [sp_walk_mv c v ?xs pat ?i ?j ?h nx] =>
    destruct (sp_walk_mv c v xs pat i j h nx) as [r0|] eqn:E end; [|discriminate].
  apply sp_walk_mv_nx in E. destruct r0; [destruct f|]; injection H as <-; cbn [wres_nx] in E; cbn; split; lia.
Qed.
Lemma sp_splice_nx c st nx v sb eb pat f rk n wa cl r :
  sp_splice c st nx v sb eb pat f rk n wa cl = Some r -> nx <= s_nx r /\ s_out r < 100.
Proof.
  intros H. destruct (sp_splice_inv _ _ _ _ _ _ _ _ _ _ _ _ _ H) as (_ & _ & H'). clear H.
  unfold sp_splice in H'. cbv zeta in H'.
  crush H'; cbn; split; lia.
Qed.
Lemma sp_splice_mv_nx c st nx v sb eb pat f rk n wa cl r :
  sp_splice_mv c st nx v sb eb pat f rk n wa cl = Some r -> nx <= s_nx r /\ s_out r < 100.
Proof.
  intros H. destruct (sp_splice_mv_inv _ _ _ _ _ _ _ _ _ _ _ _ _ H) as (_ & _ & H'). clear H.
  unfold sp_splice_mv0 in H'. cbv zeta in H'.
  destruct (get_a v st) as [a|]; [|discriminate].
  destruct (range_of_bounds usize_max (N.of_nat (length (a_xs a))) (to_sb sb) (to_sb eb)) as [[s e]|]; [|injection H' as <-; cbn; split; lia].
  match type of H' with context [sp_walk_mv c v ?xs pat ?i ?j ?h ?n0] =>
    destruct (sp_walk_mv c v xs pat i j h n0) as [r0|] eqn:E end; [|discriminate].
  apply sp_walk_mv_nx in E.
  destruct r0; [destruct f|];
    repeat match type of H' with context [match ?x with _ => _ end] => destruct x; try discriminate end;
    injection H' as <-; cbn [wres_nx] in E; cbn; split; lia.
Qed.
Lemma sp_look_nx c st nx o r : sp_look c st nx o = Some r -> nx <= s_nx r /\ s_out r < 100.
Proof. unfold sp_look. intros H. crush H; cbn; split; lia. Qed.
Lemma sp_offer_wrong_nx c st nx v k r : sp_offer_wrong c st nx v k = Some r -> nx <= s_nx r /\ s_out r < 100.
Proof. unfold sp_offer_wrong. intros H. crush H; cbn; split; lia. Qed.
Lemma sp_offer_lazy_nx c st nx v i src sidx r : sp_offer_lazy c st nx v i src sidx = Some r -> nx <= s_nx r /\ s_out r < 100.
Proof. unfold sp_offer_lazy. cbv zeta. intros H. crush H; cbn; split; lia. Qed.
Lemma sp_offer_temp_nx c st nx v i src k sidx r : sp_offer_temp c st nx v i src k sidx = Some r -> nx <= s_nx r /\ s_out r < 100.
Proof.
  unfold sp_offer_temp. intros H.
  destruct (sp_take c st nx src k (match k with TPop => 0 | _ => sidx end) (match i with None => KPush v | Some j => KIns v j end)) as [r0|] eqn:E0; [|discriminate].
  apply sp_take_nx in E0. injection H as <-. destruct (s_out r0 =? 1); cbn [panic_res s_nx s_out]; lia.
Qed.
Lemma sp_new_nx c st nx dst bk r : sp_new c st nx dst bk = Some r -> nx <= s_nx r /\ s_out r < 100.
Proof. unfold sp_new. intros H. crush H; cbn; split; lia. Qed.
Lemma sp_clone_nx c st nx v dst r : sp_clone c st nx v dst = Some r -> nx <= s_nx r /\ s_out r < 100.
Proof. unfold sp_clone. cbv zeta. intros H. crush H; cbn; split; lia. Qed.
Lemma spec_nx_out c st nx o r : spec_step c st nx o = Some r -> nx <= s_nx r /\ s_out r < 100.
Proof.
  intros H. destruct o; cbn [spec_step] in H; try discriminate;
    try (apply sp_new_nx in H; exact H); try (apply sp_clone_nx in H; exact H);
    try (destruct (get_a v st); [destruct (Nat.eqb dst v); [discriminate|apply sp_new_nx in H; exact H]|discriminate]);
    try (apply sp_capacity_nx in H; exact H);
    try (destruct (sp_drain c st nx v sb eb pat f) as [r0|] eqn:Ed;
         [injection H as <-; apply sp_drain_nx in Ed; exact Ed|apply sp_drain_mv_nx in H; exact H]);
    try (apply sp_splice_nx in H; exact H);
    try (assert (Hgen : forall rk' wa',
                   match sp_splice c st nx v sb eb pat f rk' n wa' claimed with
                   | Some r0 => Some r0
                   | None => sp_splice_mv c st nx v sb eb pat f rk' n wa' claimed
                   end = Some r -> nx <= s_nx r /\ s_out r < 100)
           by (intros rk' wa' H'; destruct (sp_splice c st nx v sb eb pat f rk' n wa' claimed) as [r0|] eqn:Es;
               [injection H' as <-; apply sp_splice_nx in Es; exact Es|apply sp_splice_mv_nx in H'; exact H']);
         destruct wrong_at as [wa0|];
         [destruct rk; unfold sp_splice_wrong in H; cbv zeta in H; try discriminate; crush H; cbn; split; lia|];
         destruct rk as [| |src]; [exact (Hgen RWrap None H)|exact (Hgen RBox None H)|];
         unfold sp_splice_lazy in H; cbv zeta in H; crush H; cbn; split; lia);
    try (apply sp_look_nx in H; exact H);
    try (apply sp_take_nx in H; exact H);
    try (destruct (fresh_src s); [apply sp_offer_nx in H; exact H|];
         destruct s; try (destruct a; discriminate);
         [destruct a; [|discriminate]; apply sp_offer_wrong_nx in H; exact H
         |destruct a; [|discriminate]; apply sp_offer_wrong_nx in H; exact H
         |destruct a; apply sp_offer_lazy_nx in H; exact H
         |destruct a; [|discriminate]; apply sp_offer_temp_nx in H; exact H
         |destruct a; [|discriminate]; unfold sp_offer_userlazy in H; cbv zeta in H; crush H; cbn; split; lia]);
    try (destruct (resizable bk); [|discriminate];
         destruct (layout_limit c bk <? c_sz c * n); [injection H as <-; cbn; split; lia|apply sp_new_nx in H; exact H]);
    try (destruct (sp_take c st nx v k (match k with TPop => 0 | _ => idx end) KDrop) as [r0|] eqn:E0; [|discriminate];
         apply sp_take_nx in E0; injection H as <-; destruct (s_out r0 =? 0); cbn [s_nx s_out]; lia);
    try (unfold sp_write in H; crush H; cbn; split; lia);
    try (unfold sp_swap, sp_swap_temp in H; crush H; cbn; split; lia);
    try (unfold sp_lazy_down in H; crush H; cbn; split; lia);
    try (unfold sp_spare_write in H; crush H; cbn; split; lia);
    try (unfold sp_views in H; crush H; cbn; split; lia);
    crush H; cbn; split; lia.
Qed.
Lemma spec_nx_ge c st nx o r : spec_step c st nx o = Some r -> nx <= s_nx r.
Proof. intros H. apply (spec_nx_out _ _ _ _ _ H). Qed.

Lemma filter_rev {A} (f : A -> bool) l : filter f (rev l) = rev (filter f l).
Proof.
  induction l as [|x l IH]; [reflexivity|]. cbn [rev filter]. rewrite filter_app, IH. cbn [filter].
  destruct (f x); [reflexivity|]. rewrite app_nil_r. reflexivity.
Qed.

(** what is observed of one step: outcome, panic kind, returned values, user-code events; and the
    world afterwards represents the specification's state *)
Record obs_match (c : cfg) (sr : step_result) (r : sres) : Prop := {
  om_out : sr_out sr = s_out r;
  om_pk : sr_pkind sr = s_pk r;
  om_ret : sr_ret sr = s_ret r;
  om_evs : filter is_user_event (world_events (sr_world sr)) = s_evs r;
  om_rep : WRep c (sr_world sr) (s_st r);
  om_nx : unext (wuw (sr_world sr)) = s_nx r;
  om_nofault : sr_out sr < 100
}.

Definition reset (w : world) : world :=
  {| wv := wv w; wuw := {| ulog := []; unext := unext (wuw w); ufuse := None |} |}.

Lemma spec_out_small c st nx o r : spec_step c st nx o = Some r -> s_out r < 100.
Proof. intros H. apply (spec_nx_out _ _ _ _ _ H). Qed.

Theorem step_refines c w st o r :
  cfg_wf c -> WRep c w st ->
  spec_step c st (unext (wuw w)) o = Some r -> admissible c w o ->
  obs_match c (run_step c None o w) r.
Proof.
  intros Hwf HW Hr Hadm.
  assert (HW0 : WRep c (reset w) st) by (apply (wrep_wv c w); [reflexivity|exact HW]).
  assert (Hadm0 : admissible c (reset w) o) by exact Hadm.
  pose proof (exec_refines_step c (reset w) st o r Hwf HW0 eq_refl Hr Hadm0) as Hx.
  pose proof (spec_nx_ge _ _ _ _ _ Hr) as Hge. pose proof (spec_out_small _ _ _ _ _ Hr) as Hsm.
  unfold run_step. fold (reset w).
  destruct (exec c o (reset w)) as [[out ret] w'|p w'|f]; cbn [res_matches] in Hx; [| |contradiction].
  - destruct Hx as (Ho & Hp & Hrt & [HR Hn Hf He]).
    constructor; cbn [sr_out sr_pkind sr_ret sr_world].
    + congruence.
    + congruence.
    + congruence.
    + unfold world_events. cbn [wuw disarm ulog]. rewrite filter_rev. fold (uevents (wuw w')).
      rewrite He. cbn [reset wuw uevents ulog filter]. rewrite app_nil_r, rev_involutive. reflexivity.
    + apply (wrep_wv c w'); [reflexivity|exact HR].
    + cbn [wuw disarm unext]. rewrite Hn. cbn [reset wuw unext] in *. lia.
    + rewrite <- Ho. exact Hsm.
  - destruct Hx as (Ho & Hp & Hrt & [HR Hn Hf He]).
    constructor; cbn [sr_out sr_pkind sr_ret sr_world].
    + congruence.
    + congruence.
    + congruence.
    + unfold world_events. cbn [wuw disarm ulog]. rewrite filter_rev. fold (uevents (wuw w')).
      rewrite He. cbn [reset wuw uevents ulog filter]. rewrite app_nil_r, rev_involutive. reflexivity.
    + apply (wrep_wv c w'); [reflexivity|exact HR].
    + cbn [wuw disarm unext]. rewrite Hn. cbn [reset wuw unext] in *. lia.
    + lia.
Qed.

(** ** Whole histories *)
Fixpoint run_hist (c : cfg) (ops : list op) (w : world) : list step_result :=
  match ops with
  | [] => []
  | o :: r => let sr := run_step c None o w in sr :: run_hist c r (sr_world sr)
  end.
(** the environment assumption: at every step the allocator can serve the request *)
Fixpoint Admissible (c : cfg) (w : world) (ops : list op) : Prop :=
  match ops with
  | [] => True
  | o :: r => admissible c w o /\ Admissible c (sr_world (run_step c None o w)) r
  end.

Theorem history_refines c ops : forall w st rs,
  cfg_wf c -> WRep c w st ->
  spec_run c st (unext (wuw w)) ops = Some rs -> Admissible c w ops ->
  Forall2 (obs_match c) (run_hist c ops w) rs.
Proof.
  induction ops as [|o ops IH]; intros w st rs Hwf HW Hs Ha; cbn [spec_run run_hist] in *.
  - injection Hs as <-. constructor.
  - destruct (spec_step c st (unext (wuw w)) o) as [x|] eqn:Ex; [|discriminate].
    destruct Ha as [Ha1 Ha2].
    pose proof (step_refines c w st o x Hwf HW Ex Ha1) as Hm.
    destruct (spec_run c (s_st x) (s_nx x) ops) as [l|] eqn:El; [|discriminate]. injection Hs as <-.
    constructor; [exact Hm|].
    apply (IH _ (s_st x)); auto.
    + apply (om_rep _ _ _ Hm).
    + rewrite (om_nx _ _ _ Hm). exact El.
Qed.

Lemma wrep_init c : WRep c init_world [].
Proof. intros n. unfold slot. cbn [init_world wv]. destruct n; exact I. Qed.

(** every history from the empty world: the machine never faults, and every vector's typed
    snapshot is the list the specification holds *)
Corollary history_from_init c ops rs :
  cfg_wf c -> spec_run c [] 1 ops = Some rs -> Admissible c init_world ops ->
  Forall2 (obs_match c) (run_hist c ops init_world) rs.
Proof. intros Hwf Hs Ha. apply (history_refines c ops init_world [] rs Hwf (wrep_init c) Hs Ha). Qed.

Lemma wrep_snapshot c w st n a :
  WRep c w st -> get_a n st = Some a ->
  exists v, get_vec n w = Some v /\ snapshot c v = Some (a_xs a) /\ vlen v = N.of_nat (length (a_xs a)) /\ vbk v = a_bk a.
Proof.
  intros HW Hg. destruct (wrep_get c w st n a HW Hg) as (v & Hgv & HV).
  exists v. split; [exact Hgv|]. split; [apply snapshot_rep; apply (vi_rep _ _ _ HV)|].
  split; [apply (rep_len _ _ _ (vi_rep _ _ _ HV))|apply (vi_bk _ _ _ HV)].
Qed.

(** ** Deciding the environment assumption on concrete histories *)
Definition fixedb (b : bkind) : bool :=
  match b with BStack _ | BStackN _ _ | BEmpty => true | _ => false end.
Definition grow_okb (c : cfg) (v : vec) (n : N) : bool :=
  match vbk v with
  | BHeap | BReloc _ => (n <=? usize_max) && (c_sz c * grow_target v n <=? alloc_limit)
  | _ => false
  end.
Definition can_takeb (c : cfg) (v : vec) : bool :=
  (vlen v + 1 <=? vcap v) || grow_okb c v (vlen v + 1) || fixedb (vbk v).
Definition bk_wfb (b : bkind) : bool :=
  match b with
  | BStack s => s <=? usize_max
  | BStackN n s => (n <=? usize_max) && (s <=? usize_max)
  | BReloc c0 => c0 <=? usize_max
  | _ => true
  end.
Definition adm_vecb (c : cfg) (w : world) (vid : nat) : bool :=
  match get_vec vid w with Some vv => can_takeb c vv | None => true end.
Definition resizableb (b : bkind) : bool := match b with BHeap | BReloc _ => true | _ => false end.
Definition roomyb (c : cfg) (vv : vec) (m : N) : bool :=
  fixedb (vbk vv) || (resizableb (vbk vv) && (2 * (vlen vv + m) + 2 <=? usize_max) && (c_sz c * (2 * (vlen vv + m) + 2) <=? alloc_limit)).
Definition adm_manyb (c : cfg) (w : world) (k : sink) (d : nat) : bool :=
  match get_vec d w with
  | Some vv => ((sink_count k d <? 1) || can_takeb c vv) && ((sink_count k d <? 2) || roomyb c vv (sink_count k d))
  | None => true
  end.
Definition adm_patb (c : cfg) (w : world) (pat : list (bool * sink)) (d : nat) : bool :=
  match get_vec d w with
  | Some vv => ((pat_count pat d <? 1) || can_takeb c vv) && ((pat_count pat d <? 2) || roomyb c vv (pat_count pat d))
  | None => true
  end.
Definition adm_spliceb (c : cfg) (w : world) (vid : nat) (sb eb : bound) (n : N) : bool :=
  match get_vec vid w with
  | Some vv =>
      match range_of_bounds usize_max (vlen vv) (to_sb sb) (to_sb eb) with
      | None => true
      | Some (s, e) =>
          let nl := s + n + (vlen vv - e) in
          (nl <=? vcap vv) || fixedb (vbk vv) || (usize_max <? nl) || grow_okb c vv nl
      end
  | None => true
  end.
Definition admissibleb (c : cfg) (w : world) (o : op) : bool :=
  match o with
  | OPush _ v _ | OInsert _ v _ _ => adm_vecb c w v
  | OPop _ _ k | ORemove _ _ _ k | OSwapRemove _ _ _ k => forallb (adm_manyb c w k) (sink_dsts k)
  | ODrain _ _ _ _ pat _ => forallb (adm_patb c w pat) (pat_dsts pat)
  | ONew _ bk | OCloneEmptyIn _ _ bk => bk_wfb bk
  | OClone v _ =>
      match get_vec v w with
      | Some sv => fixedb (vbk sv)
                   || ((vlen sv <=? usize_max)
                       && (c_sz c * grow_target {| vlen := 0; vcap := 0; vmem := []; vgen := 0; vbk := vbk sv |} (vlen sv) <=? alloc_limit))
      | None => true
      end
  | OReserve v n | OReserveExact v n =>
      match get_vec v w with
      | Some vv => ((vlen vv + n <=? vcap vv) && (c_sz c * vcap vv <=? alloc_limit)) || fixedb (vbk vv) || (usize_max <? vlen vv + n)
                   || (grow_okb c vv (vlen vv + n) && (c_sz c * (vlen vv + n) <=? alloc_limit))
                   || (resizableb (vbk vv) && (c_sz c * vcap vv <=? alloc_limit) && (layout_limit c (vbk vv) <? c_sz c * (vlen vv + n)))
      | None => true
      end
  | OShrinkToFit v | OShrinkTo v _ =>
      match get_vec v w with Some vv => c_sz c * vcap vv <=? alloc_limit | None => true end
  | OSplice _ v sb eb pat _ _ _ _ cl => adm_spliceb c w v sb eb cl && forallb (adm_patb c w pat) (pat_dsts pat)
  | OSpareWrite _ v k => match get_vec v w with Some vv => vlen vv + k <=? vcap vv | None => true end
  | OWithCapacity _ bk n =>
      bk_wfb bk && (n <=? usize_max)
      && (match bk with BReloc c0 => c_sz c * N.max n c0 <=? alloc_limit | _ => c_sz c * n <=? alloc_limit end
          || ((layout_limit c bk <? c_sz c * n) && match bk with BReloc c0 => c_sz c * c0 <=? alloc_limit | _ => true end))
  | _ => true
  end.
Fixpoint Admissibleb (c : cfg) (w : world) (ops : list op) : bool :=
  match ops with
  | [] => true
  | o :: r => admissibleb c w o && Admissibleb c (sr_world (run_step c None o w)) r
  end.

Lemma can_takeb_sound c v : can_takeb c v = true -> can_take c v 1.
Proof.
  unfold can_takeb, can_take. intros H. apply orb_prop in H. destruct H as [H|H].
  - apply orb_prop in H. destruct H as [H|H].
    + left. apply N.leb_le. exact H.
    + right. left. unfold grow_okb in H. unfold grow_ok.
      destruct (vbk v); try discriminate; apply andb_prop in H; destruct H as [H1 H2];
        split; apply N.leb_le; assumption.
  - right. right. destruct (vbk v); try discriminate; exact I.
Qed.
Lemma adm_vecb_sound c w v : adm_vecb c w v = true -> adm_vec c w v.
Proof.
  unfold adm_vecb, adm_vec. intros H vv Hg. rewrite Hg in H. apply can_takeb_sound. exact H.
Qed.
Lemma bk_wfb_sound b : bk_wfb b = true -> bk_wf b.
Proof.
  destruct b; cbn [bk_wfb bk_wf]; intros H; try exact I.
  - apply N.leb_le. exact H.
  - apply andb_prop in H. destruct H. split; apply N.leb_le; assumption.
  - apply N.leb_le. exact H.
Qed.
Lemma grow_okb_sound c v n : grow_okb c v n = true -> grow_ok c v n.
Proof.
  unfold grow_okb, grow_ok. destruct (vbk v); try discriminate; intros H; apply andb_prop in H; destruct H as [H1 H2];
    split; apply N.leb_le; assumption.
Qed.
Lemma fixedb_sound b : fixedb b = true -> fixed_backend b.
Proof. destruct b; cbn; intros H; try discriminate; exact I. Qed.
Lemma adm_reserveb_sound c w v n :
  match get_vec v w with
  | Some vv => ((vlen vv + n <=? vcap vv) && (c_sz c * vcap vv <=? alloc_limit)) || fixedb (vbk vv) || (usize_max <? vlen vv + n)
               || (grow_okb c vv (vlen vv + n) && (c_sz c * (vlen vv + n) <=? alloc_limit))
               || (resizableb (vbk vv) && (c_sz c * vcap vv <=? alloc_limit) && (layout_limit c (vbk vv) <? c_sz c * (vlen vv + n)))
  | None => true
  end = true -> adm_reserve c w v n.
Proof.
  intros H vv Hg. rewrite Hg in H.
  apply orb_prop in H. destruct H as [H|H].
  - apply orb_prop in H. destruct H as [H|H].
    + apply orb_prop in H. destruct H as [H|H].
      * apply orb_prop in H. destruct H as [H|H].
        -- left. apply andb_prop in H. destruct H as [Ha Hb]. split; apply N.leb_le; assumption.
        -- right. left. apply fixedb_sound. exact H.
      * right. right. left. apply N.ltb_lt. exact H.
    + right. right. right. left. apply andb_prop in H. destruct H as [H1 H2].
      split; [apply grow_okb_sound; exact H1|apply N.leb_le; exact H2].
  - right. right. right. right. apply andb_prop in H. destruct H as [H H3]. apply andb_prop in H. destruct H as [H1 H2].
    split; [|split; [apply N.leb_le; exact H2|apply N.ltb_lt; exact H3]].
    destruct (vbk vv); try discriminate; [left; reflexivity|right; eexists; reflexivity].
Qed.
Lemma adm_shrinkb_sound c w v :
  match get_vec v w with Some vv => c_sz c * vcap vv <=? alloc_limit | None => true end = true -> adm_shrink c w v.
Proof. intros H vv Hg. rewrite Hg in H. apply N.leb_le. exact H. Qed.
Lemma adm_cloneb_sound c w v :
  match get_vec v w with
  | Some sv => fixedb (vbk sv)
               || ((vlen sv <=? usize_max)
                   && (c_sz c * grow_target {| vlen := 0; vcap := 0; vmem := []; vgen := 0; vbk := vbk sv |} (vlen sv) <=? alloc_limit))
  | None => true
  end = true -> adm_clone c w v.
Proof.
  intros H sv Hg. rewrite Hg in H. apply orb_prop in H. destruct H as [H|H].
  - left. apply fixedb_sound. exact H.
  - right. apply andb_prop in H. destruct H as [H1 H2]. split; apply N.leb_le; assumption.
Qed.
Lemma adm_spliceb_sound c w v sb eb n : adm_spliceb c w v sb eb n = true -> adm_splice c w v sb eb n.
Proof.
  unfold adm_spliceb, adm_splice. intros H vv Hg. rewrite Hg in H.
  destruct (range_of_bounds usize_max (vlen vv) (to_sb sb) (to_sb eb)) as [[s e]|]; [|exact I].
  cbv zeta in *.
  apply orb_prop in H. destruct H as [H|H]; [|right; right; right; apply grow_okb_sound; exact H].
  apply orb_prop in H. destruct H as [H|H]; [|right; right; left; apply N.ltb_lt; exact H].
  apply orb_prop in H. destruct H as [H|H]; [left; apply N.leb_le; exact H|right; left; apply fixedb_sound; exact H].
Qed.
Lemma adm_withcapb_sound c bk n :
  bk_wfb bk && (n <=? usize_max)
  && (match bk with BReloc c0 => c_sz c * N.max n c0 <=? alloc_limit | _ => c_sz c * n <=? alloc_limit end
      || ((layout_limit c bk <? c_sz c * n) && match bk with BReloc c0 => c_sz c * c0 <=? alloc_limit | _ => true end)) = true ->
  adm_withcap c bk n.
Proof.
  intros H. apply andb_prop in H. destruct H as [H H3]. apply andb_prop in H. destruct H as [H1 H2].
  split; [apply bk_wfb_sound; exact H1|]. split; [apply N.leb_le; exact H2|].
  apply orb_prop in H3. destruct H3 as [H3|H3].
  - left. destruct bk; apply N.leb_le; exact H3.
  - right. apply andb_prop in H3. destruct H3 as [Ha Hb]. split; [apply N.ltb_lt; exact Ha|].
    destruct bk; try exact I. apply N.leb_le. exact Hb.
Qed.
Lemma roomyb_sound c vv m : roomyb c vv m = true -> roomy c vv m.
Proof.
  unfold roomyb, roomy. intros H. apply Bool.orb_true_iff in H. destruct H as [H|H].
  - left. apply fixedb_sound. exact H.
  - right. apply andb_prop in H. destruct H as [H H3]. apply andb_prop in H. destruct H as [H1 H2].
    apply N.leb_le in H2, H3. split; [|split; assumption].
    destruct (vbk vv); try discriminate; [left; reflexivity|right; eexists; reflexivity].
Qed.
Lemma adm_manyb_sound c w k d : adm_manyb c w k d = true -> adm_many c w d (sink_count k d).
Proof.
  unfold adm_manyb, adm_many. intros H vv Hg. rewrite Hg in H. apply andb_prop in H. destruct H as [H1 H2].
  split; intros Hm.
  - apply Bool.orb_true_iff in H1. destruct H1 as [H1|H1]; [apply N.ltb_lt in H1; lia|apply can_takeb_sound; exact H1].
  - apply Bool.orb_true_iff in H2. destruct H2 as [H2|H2]; [apply N.ltb_lt in H2; lia|apply roomyb_sound; exact H2].
Qed.
Lemma adm_patb_sound c w pat d : adm_patb c w pat d = true -> adm_many c w d (pat_count pat d).
Proof.
  unfold adm_patb, adm_many. intros H vv Hg. rewrite Hg in H. apply andb_prop in H. destruct H as [H1 H2].
  split; intros Hm.
  - apply Bool.orb_true_iff in H1. destruct H1 as [H1|H1]; [apply N.ltb_lt in H1; lia|apply can_takeb_sound; exact H1].
  - apply Bool.orb_true_iff in H2. destruct H2 as [H2|H2]; [apply N.ltb_lt in H2; lia|apply roomyb_sound; exact H2].
Qed.
Lemma admissibleb_sound c w o : admissibleb c w o = true -> admissible c w o.
Proof.
  destruct o; cbn [admissibleb admissible]; intros H; try exact I;
    try (apply adm_withcapb_sound; exact H);
    try (apply andb_prop in H; destruct H as [H H']; split; [apply adm_spliceb_sound; exact H|];
         intros d Hin; apply adm_patb_sound; rewrite forallb_forall in H'; apply H'; exact Hin);
    try (apply adm_cloneb_sound; exact H);
    try (apply adm_vecb_sound; exact H); try (apply bk_wfb_sound; exact H);
    try (apply adm_reserveb_sound; exact H); try (apply adm_shrinkb_sound; exact H);
    try (intros vv Hg; rewrite Hg in H; apply N.leb_le; exact H);
    try (intros d Hin; apply adm_patb_sound; rewrite forallb_forall in H; apply H; exact Hin);
    intros d Hin; apply adm_manyb_sound; rewrite forallb_forall in H; apply H; exact Hin.
Qed.
Lemma Admissibleb_sound c ops : forall w, Admissibleb c w ops = true -> Admissible c w ops.
Proof.
  induction ops as [|o r IH]; intros w H; cbn [Admissibleb Admissible] in *; [exact I|].
  apply andb_prop in H. destruct H as [H1 H2]. split; [apply admissibleb_sound; exact H1|apply IH; exact H2].
Qed.

(** ** Non-vacuity: a concrete history through every case of the fragment satisfies the hypotheses *)
Definition ex_cfg : cfg := {| c_sz := 3; c_al := 1; c_dg := true; c_cl := true; c_trap := true; c_ty := 1 |}.
Definition ex_ops : list op :=
  [ ONew 0 BHeap; ONew 1 (BStackN 2 8); ONew 2 (BReloc 2);
    OPush Erased 0 SWrap; OPush Typed 0 SWrap; OPush Erased 0 SRaw; OInsert Erased 0 0 SRawT;
    OInsert Erased 0 9 SBox;                                   (* out of range: rejected value destroyed *)
    ORemove Erased 0 1 (KPush 1); OSwapRemove Erased 0 0 (KIns 1 0);
    OPop Erased 0 (KPush 1);                                   (* StackN<2,8> is full: panics, value destroyed *)
    OPop Typed 0 KDown; OPop Erased 0 KDrop; OPop Erased 0 KDrop;   (* last one: None *)
    OPush Erased 2 SRawS; OPush Erased 2 SWrap; OPush Erased 2 SWrap; (* grows past the prebuilt capacity *)
    ORemove Erased 2 0 KForget; OGet Erased 1 1; OGet Erased 1 2; OAt Erased 1 0; OAt Erased 1 5;
    OReserve 1 5;                                              (* beyond the fixed capacity: panics *)
    OReserve 0 7; OReserveExact 0 20; OShrinkTo 0 3; OShrinkToFit 0; OReserve 1 18446744073709551615;
    OClear Erased 1; ODropVec 2; ODropVec 0;
    ONew 3 BHeap; OPush Erased 3 SWrap; OPush Erased 3 SWrap; OPush Erased 3 SWrap; OPush Erased 3 SWrap; OPush Erased 3 SWrap;
    OClone 3 4; OCloneEmpty 4 5; OCloneEmptyIn 4 6 (BStackN 2 8); OPush Erased 5 SWrap; ODropVec 4;
    ODrain Typed 3 (BExcluded 0) (BIncluded 3) [(true, KDown); (false, KDrop); (false, KDown)] FinDrop;
    ODrain Erased 3 (BIncluded 5) (BExcluded 2) [] FinDrop;                       (* start > end: panics *)
    ODrain Erased 3 BUnbounded (BIncluded 18446744073709551615) [] FinDrop;       (* end + 1 overflows: panics *)
    ODrain Erased 3 BUnbounded BUnbounded [(true, KDrop); (true, KDown); (true, KDown); (false, KDrop)] FinForget;
    ODropVec 3;
    ONew 7 BHeap; OPush Erased 7 SWrap; OPush Erased 7 SWrap; OPush Erased 7 SWrap;
    OSplice Typed 7 (BIncluded 1) (BExcluded 2) [(true, KDown)] FinDrop RWrap 2 None 2;
    OSplice Erased 7 BUnbounded (BExcluded 1) [] FinDrop RBox 0 None 0;                 (* pure removal *)
    OSplice Erased 7 (BIncluded 9) BUnbounded [] FinDrop RWrap 2 None 2;                (* invalid range: replacement values destroyed *)
    OSplice Erased 7 (BIncluded 1) BUnbounded [(false, KDrop)] FinForget RWrap 1 None 1; (* leaked *)
    ONew 8 (BStackN 2 8); OPush Erased 8 SWrap;
    OSplice Erased 8 (BIncluded 0) (BExcluded 0) [] FinDrop RWrap 2 None 2;             (* beyond the fixed capacity: panics *)
    OSplice Erased 8 (BIncluded 0) (BExcluded 0) [] FinDrop RBox 2 None 2;
    OPush Erased 7 SWrap; OPush Erased 7 SWrap;
    OIter IRef 7 [true; false; true; true; false]; OIterNth IMut 7 [(true, 1); (false, 0); (false, 3)];
    OIterClone ITypedRef 7 [true] [false; true; true]; ORead 0 7 1; ORead 3 7 9;
    OProbeTypes 7 0; OSwapWrong 7 2; OSwapWrong 7 3; OPlacement;
    OWithCapacity 9 BHeap 5; OWithCapacity 10 (BReloc 4) 2; OPush Erased 9 SWrap; OPush Erased 10 SWrap;
    OPush Erased 9 (SWrong 7); OInsert Erased 9 5 (SBoxWrong 2);     (* refused before the index is looked at *)
    ODownWrong 7 TRemove 1; ODownWrong 7 TPop 0; ODownWrong 7 TSwapRemove 4;
    OWrite 0 9 0; OWrite 1 9 3; OSwap 0 9 0 10 0; OSwap 0 9 0 10 1; OGet Erased 9 0; OGet Erased 10 0;
    OPush Erased 9 SWrap; OPush Erased 9 SWrap; OPush Erased 9 SWrap;
    (* drain(..).nth(1), then nth_back(1): the items passed over are destroyed, not reported *)
    ODrain Erased 9 BUnbounded BUnbounded [(true, KSkip); (true, KDown); (false, KSkip); (false, KDrop)] FinDrop;
    (* lazy clones as sources: one Clone per consumption, refused offers clone nothing *)
    OPush Erased 9 (SLazy 1 10 0); OInsert Typed 9 0 (SLazy 3 10 0); OInsert Erased 9 7 (SLazy 1 10 0); OPush Erased 9 (SLazy 1 10 5);
    OPush Erased 8 (SLazy 1 10 0);
    (* removal handles of another vector as sources *)
    OPush Erased 10 (STemp 9 TPop 0); OInsert Erased 10 0 (STemp 9 TRemove 0); OInsert Erased 10 9 (STemp 9 TSwapRemove 0);
    OPush Erased 10 (STemp 9 TPop 0); OPush Erased 8 (STemp 10 TRemove 1);
    (* the handle is used before it is consumed: written through, lazily cloned and downcast *)
    ORemove Erased 10 0 (KMut KDown); OPop Erased 10 (KMut (KMut (KPush 9))); OPop Erased 9 (KLazyDown 2 (KMut KForget));
    OPop Erased 8 (KLazyDown 1 (KPush 9));
    (* a lazy clone of a value the caller owns *)
    OPush Erased 9 (SLazyUser 1); OInsert Erased 9 0 (SLazyUser 3); OInsert Erased 9 9 (SLazyUser 2);
    (* replacement iterators whose announced length is wrong: announces 1, yields 3 (one goes in, two are destroyed);
       announces 4, yields 1 (the gap is closed); announces 2 on a full fixed backend and yields nothing (refused on
       the announcement alone) *)
    OSplice Erased 9 (BIncluded 1) (BExcluded 2) [] FinDrop RWrap 3 None 1;
    OSplice Typed 9 (BIncluded 0) (BExcluded 1) [(true, KDown)] FinDrop RBox 1 None 4;
    OSplice Erased 8 (BIncluded 0) (BExcluded 0) [] FinDrop RWrap 0 None 2;
    (* at(1).lazy_clone().lazy_clone().downcast::<T>(): one Clone, the caller's; out of range: panics *)
    OLazyDown 2 9 1; OLazyDown 1 9 7;
    (* two fresh values written into the spare capacity through the typed view, then set_len *)
    OReserve 9 2; OSpareWrite Typed 9 2; OGet Erased 9 4;
    (* the removal handle of 9[0] swapped with the element handle of 10[0], then dropped *)
    OPush Erased 10 SWrap; OSwap 1 9 0 10 0; OGet Erased 10 0; OSwap 2 9 7 10 0;
    (* lazy clones of a removal handle pushed into another vector before the handle is consumed: two go into the
       relocating backend, then the handle is dropped; three are offered to StackN<2,8>: the third is refused and the
       unwinding drops the handle *)
    ORemove Erased 9 0 (KLazy 2 10 KDrop); OPop Erased 9 (KLazy 3 8 (KPush 10));
    (* replacement items that are lazy clones of 10's elements: two go in; a forgotten one costs no value; one that
       announces 3 and yields 1 *)
    OSplice Erased 9 (BIncluded 0) (BExcluded 1) [] FinDrop (RLazy 10) 2 None 2;
    OSplice Erased 9 (BIncluded 0) (BExcluded 1) [(true, KDrop)] FinForget (RLazy 10) 1 None 1;
    OSplice Typed 9 BUnbounded (BExcluded 0) [] FinDrop (RLazy 10) 1 None 3;
    (* drained items moved into other vectors: one pushed into the relocating backend, one inserted, one forgotten, the
       rest destroyed with the iterator; typed; a move refused by the full StackN<2,8>: the item is destroyed and
       the unwinding drops the iterator *)
    ODrain Erased 10 BUnbounded BUnbounded [(true, KPush 9); (false, KIns 9 0); (true, KForget)] FinDrop;
    ODrain Typed 9 (BIncluded 1) BUnbounded [(false, KPush 10)] FinForget;
    ODrain Erased 9 BUnbounded BUnbounded [(true, KPush 8)] FinDrop;
    (* a splice whose yielded item is moved into another vector, one whose item is forgotten *)
    OPush Erased 9 SWrap; OPush Erased 9 SWrap;
    OSplice Erased 9 BUnbounded (BExcluded 1) [(true, KPush 10)] FinDrop RWrap 2 None 2;
    OSplice Typed 9 (BIncluded 1) BUnbounded [(false, KForget); (true, KIns 10 0)] FinDrop RBox 1 None 1;
    (* lazy clones of drained items: two downcast (a new value each, destroyed by the caller) before the item is dropped;
       one pushed into another vector before the item itself follows; three offered to the full StackN<2,8>: the
       first is refused, the unwinding destroys the item and drops the iterator *)
    ODrain Erased 9 BUnbounded (BExcluded 1) [(true, KLazyDown 2 KDrop)] FinDrop;
    ODrain Erased 10 BUnbounded BUnbounded [(false, KLazy 1 9 (KPush 9)); (true, KLazy 3 8 KDrop)] FinDrop;
    (* a splice whose second replacement value has another runtime type: the first one is already in the storage
       (leaked), the refused one and the one behind it are destroyed, the vector keeps the elements in front of the range *)
    OSplice Erased 9 (BIncluded 1) (BExcluded 2) [] FinDrop RBox 3 (Some 1) 3;
    (* a capacity that no allocation can have: refused before anything is allocated, slot 0 stays empty *)
    OWithCapacity 0 BHeap 4611686018427387904;
    OViews 8 ].                                   (* view geometry of the full StackN<2,8>: 6 bytes of elements, no spare *)

Example ex_spec_defined : exists rs, spec_run ex_cfg [] 1 ex_ops = Some rs /\ length rs = length ex_ops.
Proof. eexists. split; [vm_compute; reflexivity|reflexivity]. Qed.
Example ex_admissible : Admissible ex_cfg init_world ex_ops.
Proof. apply Admissibleb_sound. vm_compute. reflexivity. Qed.
Example ex_cfg_wf : cfg_wf ex_cfg.
Proof. unfold cfg_wf, ex_cfg. cbn. split; [reflexivity|discriminate]. Qed.
(** ... and what the theorem then says about it (outcome codes and snapshots of the last world) *)
Example ex_outcomes :
  map (fun r => (s_out r, s_pk r, s_ret r)) (match spec_run ex_cfg [] 1 ex_ops with Some rs => rs | None => [] end)
  = [(0,0,[]); (0,0,[]); (0,0,[]); (0,0,[]); (0,0,[]); (0,0,[]); (0,0,[]); (2,1,[]); (0,0,[]); (0,0,[]);
     (2,3,[]); (0,0,[3]); (1,0,[]); (1,0,[]); (0,0,[]); (0,0,[]); (0,0,[]); (0,0,[]); (0,0,[1]); (1,0,[]);
     (0,0,[4]); (2,1,[]); (2,3,[]); (0,0,[]); (0,0,[]); (0,0,[]); (0,0,[]); (2,5,[]); (0,0,[]); (0,0,[]); (0,0,[]);
     (0,0,[]); (0,0,[]); (0,0,[]); (0,0,[]); (0,0,[]); (0,0,[]);
     (0,0,[]); (0,0,[]); (0,0,[]); (0,0,[]); (0,0,[]);
     (0,0,[3; 1; 10; 2; 10; 1; 12; 1; 1; 11; 0; 11]); (2,4,[]); (2,5,[]);
     (0,0,[2; 1; 9; 1; 1; 13; 0; 13; 0; 0; 0; 0; 0; 0]); (0,0,[]);
     (0,0,[]); (0,0,[]); (0,0,[]); (0,0,[]); (0,0,[1; 1; 21; 0; 21]); (0,0,[1]); (2,4,[]); (0,0,[2; 1; 22; 1]);
     (0,0,[]); (0,0,[]); (2,3,[]); (0,0,[0]);
     (0,0,[]); (0,0,[]); (0,0,[3; 1; 23; 2; 1; 34; 1; 1; 33; 0; 0; 0; 0; 0; 0; 0]); (0,0,[3; 1; 33; 1; 1; 34; 0; 0; 0; 0]);
     (0,0,[3; 1; 23; 2; 2; 1; 34; 1; 1; 33; 0; 0; 0; 0; 2; 1; 34; 1; 1; 33; 0; 0; 0; 0]); (0,0,[33; 1; 3]); (1,0,[]);
     (0,0,[1; 0; 1; 0; 1; 3; 1; 1; 3; 1; 0; 1; 0; 1; 0]); (2,2,[]); (2,1,[]); (0,0,[0]);
     (0,0,[]); (0,0,[]); (0,0,[]); (0,0,[]); (2,2,[]); (2,2,[]); (0,0,[1; 3; 0; 0; 0]); (0,0,[1; 3; 0; 0; 0]); (2,1,[]);
     (0,0,[36]); (2,1,[]); (0,0,[]); (2,1,[]); (0,0,[37]); (0,0,[40]);
     (0,0,[]); (0,0,[]); (0,0,[]); (0,0,[4; 1; 41; 2; 41; 1; 42; 0]);
     (0,0,[]); (0,0,[]); (2,1,[]); (2,1,[]); (2,3,[]);
     (0,0,[]); (0,0,[]); (2,1,[]); (2,1,[]); (2,3,[]);
     (0,0,[45; 46]); (0,0,[44; 47]); (0,0,[49; 50; 48]); (0,0,[52]);
     (0,0,[]); (0,0,[]); (2,1,[]);
     (0,0,[1]); (0,0,[1; 1; 56; 0; 56]); (2,3,[]); (0,0,[62]); (2,1,[]);
     (0,0,[]); (0,0,[]); (0,0,[64]);
     (0,0,[]); (0,0,[]); (0,0,[61]); (2,1,[]);
     (0,0,[]); (2,3,[]); (0,0,[1]); (0,0,[1; 1; 70; 0]); (0,0,[0]);
     (0,0,[3; 1; 61; 2; 1; 67; 1; 1; 66; 0]); (0,0,[2; 1; 61; 1]); (2,3,[]);
     (0,0,[]); (0,0,[]); (0,0,[1; 1; 73; 0]); (0,0,[2; 1; 74; 1; 1; 76; 0]);
     (0,0,[1; 1; 75; 0; 78; 79]); (2,3,[]); (2,2,[]); (2,6,[]); (0,0,[0; 6; 6; 0; 0; 2; 6; 0; 0])].
Proof. vm_compute. reflexivity. Qed.

(** ** Corollaries in the vocabulary of the properties *)
Lemma Forall2_impl {A B} (R Q : A -> B -> Prop) l l' :
  (forall x y, R x y -> Q x y) -> Forall2 R l l' -> Forall2 Q l l'.
Proof. intros HRQ H. induction H; constructor; auto. Qed.
Lemma Forall2_Forall_l {A B} (R : A -> B -> Prop) (P : A -> Prop) l l' :
  (forall x y, R x y -> P x) -> Forall2 R l l' -> Forall P l.
Proof. intros HRP H. induction H; constructor; eauto. Qed.

(** C01: after every step of every history each vector's typed snapshot is the list std::vec::Vec
    would hold, and outcome and returned values are the specification's *)
Corollary history_snapshots c ops w st rs :
  cfg_wf c -> WRep c w st -> spec_run c st (unext (wuw w)) ops = Some rs -> Admissible c w ops ->
  Forall2 (fun sr r =>
             sr_out sr = s_out r /\ sr_pkind sr = s_pk r /\ sr_ret sr = s_ret r /\
             forall n a, get_a n (s_st r) = Some a ->
               exists v, get_vec n (sr_world sr) = Some v /\ snapshot c v = Some (a_xs a) /\
                         vlen v = N.of_nat (length (a_xs a)))
          (run_hist c ops w) rs.
Proof.
  intros Hwf HW Hs Ha. apply (Forall2_impl (obs_match c)); [|apply (history_refines c ops w st rs Hwf HW Hs Ha)].
  intros sr r [Ho Hp Hr He HR Hn Hnf]. repeat split; auto.
  intros n a Hg. destruct (wrep_snapshot c _ _ n a HR Hg) as (v & Hgv & Hsn & Hl & _).
  exists v. auto.
Qed.
(** C05: no step of any history reaches a fault (out-of-bounds access, stale pointer, read of
    uninitialised or moved-out bytes, backend misuse); outcomes are 0 (ok), 1 (None) or 2 (panic) *)
Corollary history_no_fault c ops w st rs :
  cfg_wf c -> WRep c w st -> spec_run c st (unext (wuw w)) ops = Some rs -> Admissible c w ops ->
  Forall (fun sr => sr_out sr < 100) (run_hist c ops w).
Proof.
  intros Hwf HW Hs Ha. apply (Forall2_Forall_l (obs_match c) _ _ rs); [|apply (history_refines c ops w st rs Hwf HW Hs Ha)].
  intros sr r Hm. apply (om_nofault _ _ _ Hm).
Qed.
(** the user-code events (destructor runs) of every step are exactly the specification's *)
Corollary history_events c ops w st rs :
  cfg_wf c -> WRep c w st -> spec_run c st (unext (wuw w)) ops = Some rs -> Admissible c w ops ->
  Forall2 (fun sr r => filter is_user_event (world_events (sr_world sr)) = s_evs r) (run_hist c ops w) rs.
Proof.
  intros Hwf HW Hs Ha. apply (Forall2_impl (obs_match c)); [|apply (history_refines c ops w st rs Hwf HW Hs Ha)].
  intros sr r Hm. apply (om_evs _ _ _ Hm).
Qed.
(** C10: in every state of every history (capacity calls included) len <= capacity for every vector *)
Corollary history_len_le_cap c ops w st rs :
  cfg_wf c -> WRep c w st -> spec_run c st (unext (wuw w)) ops = Some rs -> Admissible c w ops ->
  Forall (fun sr => forall n v, get_vec n (sr_world sr) = Some v -> vlen v <= vcap v) (run_hist c ops w).
Proof.
  intros Hwf HW Hs Ha. apply (Forall2_Forall_l (obs_match c) _ _ rs); [|apply (history_refines c ops w st rs Hwf HW Hs Ha)].
  intros sr r Hm n v Hg. pose proof (om_rep _ _ _ Hm n) as H. rewrite get_vec_slot in Hg. rewrite Hg in H.
  destruct (slot n (s_st r)) as [a|]; cbn in H; [|contradiction].
  apply (rep_cap _ _ _ (vi_rep _ _ _ H)).
Qed.

