(** * The byte-level machine refines the list specification for whole histories. *)
From AV.Model Require Import Base Bytes Vec Ops Interp.
From AV.Spec Require Import VecSpec.
From AV.Proofs Require Import MemLemmas Rep VecProofs TempProofs RangeProofs CapProofs CloneProofs NoFault HandleProofs.
From WIP Require Import WorldSpec.
Arguments N.add : simpl never.
Arguments N.sub : simpl never.
Arguments N.mul : simpl never.

(** ** The representation relation *)

(** what the abstract vector [a] says about the machine vector [v] *)
Record VI (c : cfg) (v : vec) (a : avec) : Prop := {
  vi_rep : Rep c v (a_xs a);
  vi_bk : vbk v = a_bk a;
  vi_wf : bk_wf (a_bk a);
  vi_cap : match acap c (a_bk a) with Some cap => vcap v = cap | None => True end
}.

Definition slot_rel (c : cfg) (ov : option vec) (oa : option avec) : Prop :=
  match ov, oa with
  | None, None => True
  | Some v, Some a => VI c v a
  | _, _ => False
  end.
Definition WRep (c : cfg) (w : world) (st : astate) : Prop := Forall2 (slot_rel c) (wv w) st.

Lemma forall2_nth_error {A B} (R : A -> B -> Prop) l l' n :
  Forall2 R l l' ->
  match nth_error l n, nth_error l' n with
  | Some x, Some y => R x y
  | None, None => True
  | _, _ => False
  end.
Proof.
  intros H. revert n. induction H as [|x y l l' Hxy H IH]; intros n.
  - destruct n; exact I.
  - destruct n as [|n]; cbn [nth_error]; [exact Hxy | apply IH].
Qed.

Lemma wrep_get c w st v a :
  WRep c w st -> get_a v st = Some a -> exists vv, get_vec v w = Some vv /\ VI c vv a.
Proof.
  intros H Hg. unfold get_a in Hg. unfold get_vec.
  pose proof (forall2_nth_error _ _ _ v H) as Hn.
  destruct (nth_error st v) as [[a'|]|]; try discriminate. injection Hg as ->.
  destruct (nth_error (wv w) v) as [[vv|]|]; cbn in Hn; try contradiction.
  exists vv. split; [reflexivity | exact Hn].
Qed.
Lemma wrep_get_none c w st v :
  WRep c w st -> get_a v st = None -> get_vec v w = None.
Proof.
  intros H Hg. unfold get_a in Hg. unfold get_vec.
  pose proof (forall2_nth_error _ _ _ v H) as Hn.
  destruct (nth_error st v) as [[a'|]|]; try discriminate;
  destruct (nth_error (wv w) v) as [[vv|]|]; cbn in Hn; try contradiction; reflexivity.
Qed.

Lemma forall2_set_nth {A B} (R : A -> B -> Prop) l l' n x y dx dy :
  Forall2 R l l' -> R x y -> R dx dy -> Forall2 R (set_nth n x dx l) (set_nth n y dy l').
Proof.
  intros H Hxy Hd. revert l l' H. induction n as [|n IH]; intros l l' H.
  - destruct H; cbn [set_nth]; constructor; auto.
  - destruct H as [|a b l l' Hab H]; cbn [set_nth].
    + constructor; [exact Hd|]. apply IH. constructor.
    + constructor; [exact Hab|]. apply IH. exact H.
Qed.

Lemma wrep_put c w st v ov oa u :
  WRep c w st -> slot_rel c ov oa -> WRep c (put_vec v ov u w) (set_a v oa st).
Proof.
  intros H Hs. unfold WRep, put_vec, set_a. cbn [wv].
  apply forall2_set_nth; [exact H | exact Hs | exact I].
Qed.

(** reading other slots after an update *)
Lemma nth_error_set_nth_other {A} (l : list A) n m x d :
  m <> n ->
  match nth_error (set_nth n x d l) m with
  | Some y => nth_error l m = Some y \/ (nth_error l m = None /\ y = d)
  | None => nth_error l m = None
  end.
Proof.
  revert l m. induction n as [|n IH]; intros l m Hne.
  - destruct m as [|m]; [congruence|]. destruct l as [|a l]; cbn [set_nth nth_error].
    + destruct m; reflexivity.
    + destruct (nth_error l m); auto.
  - destruct l as [|a l]; cbn [set_nth]; destruct m as [|m]; cbn [nth_error].
    + right. auto.
    + specialize (IH [] m). assert (m <> n) by lia. specialize (IH H).
      destruct (nth_error (set_nth n x d []) m).
      * destruct IH as [IH|[_ IH]]; [destruct m; discriminate|]. right. split; [destruct m; reflexivity | exact IH].
      * destruct m; reflexivity.
    + left. reflexivity.
    + apply IH. lia.
Qed.

Lemma get_vec_put_other v m ov u w :
  m <> v -> get_vec m (put_vec v ov u w) = get_vec m w.
Proof.
  intros Hne. unfold get_vec, put_vec. cbn [wv].
  pose proof (nth_error_set_nth_other (wv w) v m ov None Hne) as H.
  destruct (nth_error (set_nth v ov None (wv w)) m) as [y|].
  - destruct H as [H|[H ->]]; rewrite H; reflexivity.
  - rewrite H. reflexivity.
Qed.
Lemma get_a_set_other v m oa st :
  m <> v -> get_a m (set_a v oa st) = get_a m st.
Proof.
  intros Hne. unfold get_a, set_a.
  pose proof (nth_error_set_nth_other st v m oa None Hne) as H.
  destruct (nth_error (set_nth v oa None st) m) as [y|].
  - destruct H as [H|[H ->]]; rewrite H; reflexivity.
  - rewrite H. reflexivity.
Qed.
Lemma nth_error_set_nth_same {A} (l : list A) n x d : nth_error (set_nth n x d l) n = Some x.
Proof.
  revert l. induction n as [|n IH]; intros l; destruct l; cbn [set_nth nth_error]; auto.
Qed.
Lemma get_vec_put_same v vv u w : get_vec v (put_vec v (Some vv) u w) = Some vv.
Proof. unfold get_vec, put_vec. cbn [wv]. rewrite nth_error_set_nth_same. reflexivity. Qed.
Lemma get_a_set_same v a st : get_a v (set_a v (Some a) st) = Some a.
Proof. unfold get_a, set_a. rewrite nth_error_set_nth_same. reflexivity. Qed.

(** ** Running a vector computation inside the world *)
Lemma on_vec_ok {A} vid (m : M st A) w v a v' u' :
  get_vec vid w = Some v -> m (v, wuw w) = Ok a (v', u') ->
  on_vec vid m w = Ok a (put_vec vid (Some v') u' w).
Proof. intros Hg Hm. unfold on_vec. rewrite Hg, Hm. reflexivity. Qed.
Lemma on_vec_panic {A} vid (m : M st A) w v p v' u' :
  get_vec vid w = Some v -> m (v, wuw w) = Panic p (v', u') ->
  on_vec vid m w = Panic p (put_vec vid (Some v') u' w).
Proof. intros Hg Hm. unfold on_vec. rewrite Hg, Hm. reflexivity. Qed.
Lemma peek_vec_ok vid w v : get_vec vid w = Some v -> peek_vec vid w = Ok v w.
Proof. intros Hg. unfold peek_vec. rewrite Hg. reflexivity. Qed.

Lemma wuw_put v ov u w : wuw (put_vec v ov u w) = u.
Proof. reflexivity. Qed.
