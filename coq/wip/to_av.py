#!/usr/bin/env python3
"""copy the wip development into AV (import lines rewritten)"""
import os
os.chdir('/verif/coq')
def conv(src,dst):
    s=open(src).read()
    s=s.replace("From WIP Require Import WorldSpec WorldCore WorldSplice WorldRead.","From AV.Spec Require Import WorldSpec.\nFrom AV.Proofs Require Import WorldCore WorldSplice WorldRead.")
    s=s.replace("From WIP Require Import WorldSpec WorldCore WorldSplice.","From AV.Spec Require Import WorldSpec.\nFrom AV.Proofs Require Import WorldCore WorldSplice.")
    s=s.replace("From WIP Require Import WorldSpec WorldCore.","From AV.Spec Require Import WorldSpec.\nFrom AV.Proofs Require Import WorldCore.")
    s=s.replace("From WIP Require Import WorldSpec.","From AV.Spec Require Import WorldSpec.")
    s=s.replace("From WIP Require WorldProofs WorldFused.","From AV.Proofs Require WorldProofs WorldFused.")
    s=s.replace("From WIP Require WorldProofs.","From AV.Proofs Require WorldProofs.")
    s=s.replace("From WIP Require Import WorldSpec WorldProofs.","From AV.Spec Require Import WorldSpec.\nFrom AV.Proofs Require Import WorldProofs.")
    s=s.replace("From WIP Require Export ","From AV.Proofs Require Export ")
    assert "WIP" not in s, (src, [l for l in s.split('\n') if 'WIP' in l])
    if not os.path.exists(dst) or open(dst).read()!=s:
        open(dst,'w').write(s)
conv('wip/WorldSpec.v','AV/Spec/WorldSpec.v')
for f in ['WorldCore','WorldSplice','WorldRead','WorldMore','WorldDrain','WorldWrong','WorldProofs','WorldFused','OwnHistory']:
    conv('wip/%s.v'%f,'AV/Proofs/%s.v'%f)
