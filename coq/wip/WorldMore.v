(** * More operations inside histories: with_capacity, values of another type offered to push / insert,
      removal handles whose downcast is refused. *)
From AV.Model Require Import Base Bytes Vec Ops Interp.
From AV.Spec Require Import VecSpec.
From AV.Proofs Require Import MemLemmas Rep VecProofs TempProofs RangeProofs CapProofs CloneProofs NoFault HandleProofs.
From WIP Require Import WorldSpec WorldCore.
Arguments N.add : simpl never.
Arguments N.sub : simpl never.
Arguments N.mul : simpl never.

(** ** with_capacity *)

Lemma exec_withcap c w st dst bk n r :
  cfg_wf c -> WRep c w st -> ufuse (wuw w) = None ->
  (if resizable bk then sp_new c st (unext (wuw w)) dst bk else None) = Some r ->
  adm_withcap c bk n ->
  res_matches c w (exec c (OWithCapacity dst bk n) w) r.
Proof.
  intros Hwf HW Hfuse Hr (Hbw & Hmax & Hlim).
  destruct (resizable bk) eqn:Hrz; [|discriminate].
  set (v0 := {| vlen := 0; vcap := 0; vmem := []; vgen := 0; vbk := bk |}).
  assert (Hb : exists v1 u1, mem_build c bk (v0, wuw w) = Ok tt (v1, u1) /\ VI c v1 {| a_bk := bk; a_xs := [] |} /\
                             same_user (wuw w) u1 /\ vcap v1 = match bk with BReloc c0 => c0 | _ => 0 end).
  { pose proof (new_vi c bk v0 (wuw w) Hbw) as Hn.
    destruct bk as [|size|k size| |c0]; try discriminate; destruct Hn as (v1 & u1 & E & HV & Hsu);
      exists v1, u1; (split; [exact E|]); (split; [exact HV|]); (split; [exact Hsu|]);
      unfold mem_build, bind, emitv, setv in E; cbn in E; injection E as <- _; reflexivity. }
  destruct Hb as (v1 & u1 & E1 & HV1 & Hsu1 & Hc1).
  pose proof (vi_rep _ _ _ HV1) as HR1. cbn [a_xs] in HR1.
  assert (Hres : resizable_backend (vbk v1)).
  { rewrite (vi_bk _ _ _ HV1). cbn [a_bk]. destruct bk; try discriminate; [left; reflexivity|right; eexists; reflexivity]. }
  assert (Hrs : exists v2 u2, mem_resize c n (v1, u1) = Ok tt (v2, u2) /\ Rep c v2 [] /\ vbk v2 = vbk v1 /\ same_user u1 u2).
  { destruct (N.le_gt_cases (vcap v1) n) as [Hle|Hgt].
    - destruct (mem_resize_grow c v1 u1 [] n Hwf HR1 Hres Hle Hmax) as (v2 & u2 & E & H1 & H2 & H3 & H4).
      { destruct bk; try discriminate; lia. }
      exists v2, u2. auto.
    - destruct (mem_resize_shrink c v1 u1 [] n Hwf HR1 Hres) as (v2 & u2 & E & H1 & H2 & H3 & H4).
      { rewrite (rep_len _ _ _ HR1). cbn [length]. lia. }
      { lia. }
      { rewrite Hc1 in *. destruct bk; try discriminate; lia. }
      exists v2, u2. auto. }
  destruct Hrs as (v2 & u2 & E2 & HR2 & Hb2 & Hsu2).
  cbn [exec]. fold v0. unfold bind at 1. rewrite E1.
  rewrite (unwinding_ok _ _ _ _ _ E2).
  assert (Hsp : sp_new c st (unext (wuw w)) dst bk = Some (ok_res [] [] (set_a dst (Some {| a_bk := bk; a_xs := [] |}) st) (unext (wuw w)))).
  { unfold sp_new. destruct bk; try discriminate; reflexivity. }
  rewrite Hsp in Hr. injection Hr as <-.
  destruct (same_user_events _ _ Hsu1) as (He1 & Hn1 & Hf1). destruct (same_user_events _ _ Hsu2) as (He2 & Hn2 & Hf2).
  cbn [res_matches ok_res s_out s_pk s_ret s_st s_evs s_nx].
  split; [reflexivity|split; [reflexivity|split; [reflexivity|]]]. rewrite N.sub_diag.
  constructor.
  - apply wrep_put; [exact HW|]. destruct HV1 as [_ Hbk Hwfb Hcap Hfits]. cbn [a_bk a_xs] in *.
    constructor; cbn [a_bk a_xs]; auto; try congruence.
    destruct bk; try discriminate; exact I.
  - rewrite wuw_put. lia.
  - rewrite wuw_put. congruence.
  - rewrite wuw_put. cbn [rev app]. congruence.
Qed.

(** ** a value of another type offered to the erased push / insert *)
Lemma exec_offer_wrong c w st vid s k (action : vsrc -> M Vec.st unit) r :
  WRep c w st -> ufuse (wuw w) = None ->
  (s = SWrong k \/ s = SBoxWrong k) ->
  sp_offer_wrong c st (unext (wuw w)) vid k = Some r ->
  res_matches c w ((do o <- make_offer c s; offer_into c vid o action;; ret (0, @nil N)) w) r.
Proof.
  intros HW Hfuse Hs Hr. unfold sp_offer_wrong in Hr.
  destruct (get_a vid st) as [av|] eqn:Hg; [|discriminate].
  destruct (N.eqb_spec k (c_ty c)) as [|Hne]; [discriminate|]. injection Hr as <-.
  set (t := tok c (unext (wuw w))).
  assert (Emk : exists o, make_offer c s w = Ok o (bump w) /\ f_checked o = true /\ f_ty o = k /\ f_drop o = DOwned t).
  { destruct Hs as [-> | ->]; eexists; (split; [reflexivity|]); cbn [f_checked f_ty f_drop]; auto. }
  destruct Emk as (o & Emk & Hck & Hty & Hdr).
  unfold bind at 1. rewrite Emk.
  destruct (quiet_drop_fresh c o t (bump w) (or_introl Hdr)) as (w' & Eq & Hwv & Hn & Hf & He).
  assert (Eo : offer_into c vid o action (bump w) = Panic PType w').
  { unfold offer_into, unwinding. apply bind_panic. unfold on_unwind.
    rewrite Hck, Hty. unfold bind at 1. unfold assert_.
    destruct (N.eqb_spec k (c_ty c)) as [|_]; [contradiction|]. unfold raise. rewrite Eq. reflexivity. }
  rewrite (bind_panic _ _ _ _ _ Eo).
  cbn [res_matches panic_res s_out s_pk s_ret s_st s_evs s_nx].
  split; [reflexivity|split; [reflexivity|split; [reflexivity|]]].
  replace (unext (wuw w) + 1 - unext (wuw w)) with (1 + 0) by lia.
  apply step_ok_bump. constructor.
  - apply (wrep_wv c (bump w) w' st Hwv). apply wrep_bump. exact HW.
  - rewrite Hn. lia.
  - rewrite Hf. exact Hfuse.
  - exact He.
Qed.

(** ** a removal handle whose downcast to another type is refused *)
Lemma exec_down_wrong c w st vid k idx r0 :
  cfg_wf c -> WRep c w st -> ufuse (wuw w) = None ->
  sp_take c st (unext (wuw w)) vid k (match k with TPop => 0 | _ => idx end) KDrop = Some r0 ->
  res_matches c w (exec c (ODownWrong vid k idx) w)
    (if s_out r0 =? 0 then {| s_out := 0; s_pk := 0; s_ret := [1; c_sz c; 0; 0; 0]; s_evs := s_evs r0;
                              s_st := s_st r0; s_nx := s_nx r0 |} else r0).
Proof.
  intros Hwf HW Hfuse Hr.
  set (idx' := match k with TPop => 0 | _ => idx end) in *.
  assert (Hpop : k = TPop -> idx' = 0) by (intros ->; reflexivity).
  pose proof (exec_take c w st Erased vid k idx' KDrop r0 Hwf HW Hfuse Hpop I Hr) as Hm.
  assert (Eopen : temp_open c vid k idx = temp_open c vid k idx').
  { unfold idx', temp_open. destruct k; reflexivity. }
  unfold take_prog in Hm. cbn [exec]. rewrite Eopen.
  unfold bind at 1 in Hm. unfold bind at 1.
  destruct (temp_open c vid k idx' w) as [[h|] w1|p w1|f]; cbn [res_matches] in *.
  - cbn [apply_sink known_of] in Hm. unfold bind in Hm. unfold bind.
    destruct (on_vec vid (temp_drop c false h) w1) as [[] w2|p w2|f]; unfold ret in *; cbn [res_matches] in *.
    + destruct Hm as (H1 & H2 & H3 & H4). rewrite H1. cbn [N.eqb s_out s_pk s_ret s_st s_evs s_nx]. auto.
    + rewrite (proj1 Hm). cbn [N.eqb]. exact Hm.
    + exact Hm.
  - unfold ret in *. cbn [res_matches] in *. rewrite (proj1 Hm). cbn [N.eqb]. exact Hm.
  - rewrite (proj1 Hm). cbn [N.eqb]. exact Hm.
  - exact Hm.
Qed.
