(** * Histories in which user code panics: steps with an armed fuse refine [WorldSpec.spec_step_f]. *)
From AV.Model Require Import Base Bytes Vec Ops Interp.
From AV.Spec Require Import VecSpec.
From AV.Proofs Require Import MemLemmas Rep VecProofs TempProofs RangeProofs CapProofs CloneProofs NoFault HandleProofs FaultProofs.
From WIP Require Import WorldSpec WorldProofs.
Arguments N.add : simpl never.
Arguments N.sub : simpl never.
Arguments N.mul : simpl never.

(** [clear] with an armed fuse, explicitly *)
Lemma clear_fused c v u xs k :
  Rep c v xs -> ufuse u = Some k ->
  exists u',
    clear c (v, u) = (if c_dg c && (k <? N.of_nat (length xs)) then Panic PUser (with_len 0 v, u') else Ok tt (with_len 0 v, u')) /\
    Rep c (with_len 0 v) [] /\ unext u' = unext u /\
    ulog u' = rev (if c_dg c then (if k <? N.of_nat (length xs) then map EDrop (firstn (S (N.to_nat k)) xs) else map EDrop xs) else []) ++ ulog u.
Proof.
  intros HR Hf. pose proof (rep_held _ _ _ HR) as HH.
  destruct HR as [Hlen Hcap Hus Hst Hmem Htok].
  assert (HR0 : Rep c (with_len 0 v) []).
  { constructor; cbn [with_len vlen vcap vmem length]; auto; try lia. }
  unfold clear, bind, getv, setv. cbn [fst snd]. rewrite Hlen, Nat2N.id.
  destruct (c_dg c) eqn:Hdg; cbn [andb].
  - destruct (N.ltb_spec k (N.of_nat (length xs))) as [Hlt|Hge].
    + destruct (drop_loop_fire c (with_len 0 v) xs 0%nat u (N.to_nat k)) as [u' [E [L [Nx F]]]]; auto.
      { cbn [with_len vcap]. lia. }
      { rewrite N2Nat.id. exact Hf. }
      { lia. }
      exists u'. cbn [Nat.mul] in E. split; [exact E|]. split; [exact HR0|]. split; [exact Nx|exact L].
    + destruct (drop_loop_tick c (with_len 0 v) xs 0%nat u k) as [u' [E [L [Nx F]]]]; auto.
      { cbn [with_len vcap]. lia. }
      exists u'. cbn [Nat.mul] in E. split; [exact E|]. split; [exact HR0|]. split; [exact Nx|exact L].
  - exists u. unfold ret. cbn [rev app]. auto.
Qed.

(** dropping a removal handle with an armed fuse *)
Lemma temp_drop_fused c v u xs k i h known f :
  Rep c v xs -> temp_req k i xs -> temp_for c v xs k i h -> ufuse u = Some f ->
  if c_dg c && (f =? 0)
  then exists u', temp_drop c known h (with_len (N.of_nat i) v, u) = Panic PUser (with_len (N.of_nat i) v, u') /\
                  unext u' = unext u /\ ulog u' = EDrop (nth i xs 0) :: ulog u
  else exists v' u', temp_drop c known h (with_len (N.of_nat i) v, u) = Ok tt (v', u') /\
                  Rep c v' (temp_result k i xs) /\ vcap v' = vcap v /\ vbk v' = vbk v /\ unext u' = unext u /\
                  ulog u' = (if c_dg c then [EDrop (nth i xs 0)] else []) ++ ulog u.
Proof.
  intros HR Hreq Hfor Hfuse.
  destruct (c_dg c) eqn:Hdg; cbn [andb].
  - destruct (N.eqb_spec f 0) as [->|Hnz].
    + destruct (temp_drop_panics c v u xs k i h known HR Hreq Hfor Hdg Hfuse) as (u' & E & Hf' & Hl).
      exists u'. split; [exact E|]. split; [|exact Hl].
      (* unext: the panicking destructor creates nothing *)
      revert E. unfold temp_drop. unfold bind at 1. rewrite (temp_ptr_ok _ _ _ _ _ _ _ Hfor).
      unfold bind at 1. rewrite Hdg.
      unfold bind at 1. unfold getv at 1. cbn [fst snd pgen poff ptr_at vgen with_len].
      rewrite N.eqb_refl. cbn [negb]. unfold bind at 1. unfold ret at 1.
      rewrite (temp_drop_head _ _ _ _ _ _ _ HR Hreq Hfor).
      unfold user_call, tick. cbn [fst snd emit ufuse]. rewrite Hfuse. cbn [N.eqb].
      intros E. injection E as <-. reflexivity.
    + unfold temp_drop. unfold bind at 1. rewrite (temp_ptr_ok _ _ _ _ _ _ _ Hfor).
      unfold bind at 1. rewrite Hdg.
      unfold bind at 1. unfold getv at 1. cbn [fst snd pgen poff ptr_at vgen with_len].
      rewrite N.eqb_refl. cbn [negb]. unfold bind at 1. unfold ret at 1.
      rewrite (temp_drop_head _ _ _ _ _ _ _ HR Hreq Hfor).
      unfold user_call, tick. cbn [fst snd emit ufuse]. rewrite Hfuse.
      destruct (N.eqb_spec f 0) as [|_]; [contradiction|].
      set (u1 := {| ulog := ulog (emit (EDrop (nth i xs 0)) u); unext := unext (emit (EDrop (nth i xs 0)) u); ufuse := Some (f - 1) |}).
      destruct (temp_consume_explicit c v u1 xs k i h HR Hreq Hfor) as (v' & H & HR' & Hc & Hb & _).
      exists v', u1. split; [apply H|]. unfold u1. cbn [emit unext ulog app]. auto 10.
  - unfold temp_drop. unfold bind at 1. rewrite (temp_ptr_ok _ _ _ _ _ _ _ Hfor).
    unfold bind at 1. rewrite Hdg. unfold ret at 1.
    destruct (temp_consume_explicit c v u xs k i h HR Hreq Hfor) as (v' & H & HR' & Hc & Hb & _).
    exists v', u. split; [apply H|]. cbn [app]. auto 10.
Qed.

(** typed slice drop with a fuse that outlives it *)
Lemma drop_slice_tick c v ys : forall p u k,
  store_ok c v -> N.of_nat (p + length ys) <= vcap v -> Held c v p ys ->
  Forall (tok_ok (szn c)) ys -> ufuse u = Some k -> N.of_nat (length ys) <= k ->
  exists u', drop_slice c (p * szn c) (length ys) (v, u) = Ok tt (v, u') /\
    ulog u' = rev (map EDrop ys) ++ ulog u /\ unext u' = unext u.
Proof.
  induction ys as [|y ys IH]; intros p u k Hst Hle Hh Hall Hf Hk.
  - exists u. cbn [length drop_slice map rev app]. unfold ret. auto.
  - cbn [length] in Hle, Hk. cbn [length drop_slice].
    apply (held_split c v p [y] ys) in Hh. destruct Hh as [H1 H2].
    inversion Hall; subst.
    rewrite (drop_at_pre c v u p y) by (auto; lia).
    rewrite (user_call_tick v (emit (EDrop y) u) k) by (auto; lia).
    replace (p * szn c + szn c)%nat with ((p + 1) * szn c)%nat by lia.
    destruct (IH (p + 1)%nat (set_fuse (Some (k - 1)) (emit (EDrop y) u)) (k - 1))
      as [u' [E [L Nx]]]; auto; try lia.
    exists u'. split; [exact E|]. split.
    + rewrite L. cbn [map rev ulog set_fuse emit]. rewrite <- app_assoc. reflexivity.
    + rewrite Nx. reflexivity.
Qed.

(** [drop_elements_range] with an armed fuse: [n] = number of elements in the range *)
Lemma drop_range_fused c known v u ys i j k :
  store_ok c v -> (i <= j)%nat -> N.of_nat j <= vcap v -> length ys = (j - i)%nat ->
  Held c v i ys -> Forall (tok_ok (szn c)) ys -> ufuse u = Some k ->
  exists u',
    drop_range c known (N.of_nat i) (N.of_nat j) (v, u)
    = (if c_dg c && (k <? N.of_nat (j - i)) then Panic PUser (v, u') else Ok tt (v, u')) /\
    unext u' = unext u /\
    ulog u' = rev (if c_dg c then (if k <? N.of_nat (j - i)
                                   then map EDrop (if known then ys else firstn (S (N.to_nat k)) ys)
                                   else map EDrop ys) else []) ++ ulog u.
Proof.
  intros Hst Hij Hj Hlen Hh Hall Hf. unfold drop_range, bind, assert_.
  rewrite (proj2 (N.leb_le (N.of_nat i) (N.of_nat j))) by lia.
  rewrite orb_true_r. unfold ret at 1. rewrite bo_of_nat.
  replace (N.to_nat (N.of_nat j - N.of_nat i)) with (length ys) by lia.
  destruct (c_dg c); cbn [andb].
  - rewrite <- Hlen. destruct (N.ltb_spec k (N.of_nat (length ys))) as [Hlt|Hge].
    + destruct known.
      * destruct (drop_slice_fire c v ys i u (N.to_nat k)) as [u' [E [L [Nx F]]]]; auto; try lia.
        { rewrite N2Nat.id. exact Hf. }
        exists u'. auto.
      * destruct (drop_loop_fire c v ys i u (N.to_nat k)) as [u' [E [L [Nx F]]]]; auto; try lia.
        { rewrite N2Nat.id. exact Hf. }
        exists u'. auto.
    + destruct known.
      * destruct (drop_slice_tick c v ys i u k) as [u' [E [L Nx]]]; auto; try lia. exists u'. auto.
      * destruct (drop_loop_tick c v ys i u k) as [u' [E [L [Nx F]]]]; auto; try lia. exists u'. auto.
  - exists u. unfold ret. cbn [rev app]. auto.
Qed.

(** the rest of [Drain::drop] once the un-yielded elements are destroyed *)
Lemma drain_drop_after c v u u1 xs s e i j known :
  RangeAlive c v xs s e i j ->
  drop_range c known (N.of_nat i) (N.of_nat j) (v, u) = Ok tt (v, u1) ->
  let d := {| dcur := {| ci := N.of_nat i; ce := N.of_nat j |};
              dstart := N.of_nat s; dend := N.of_nat e; dorig := N.of_nat (length xs) |} in
  exists v', drain_drop c known d (v, u) = Ok tt (v', u1) /\
    Rep c v' (VecSpec.sp_drain s e xs) /\ vcap v' = vcap v /\ vbk v' = vbk v.
Proof.
  intros HA E1 d. destruct HA as [Hle Hlen Hcap Hus Hst Hp Hm Ht Htok].
  destruct Hle as [Hsi [Hij [Hje Hel]]].
  set (tail := skipn e xs) in *.
  assert (Hlt : length tail = (length xs - e)%nat) by apply skipn_length.
  assert (Hlp : length (firstn s xs) = s) by (apply firstn_length_le; lia).
  destruct (moved_state c v (firstn s xs) tail s Hst) as [Hst' [Hp' Ht']]; auto; try lia.
  eexists. split; [|split].
  - unfold drain_drop, d. cbn [dcur ci ce dend dstart dorig].
    rewrite (bind_ok _ _ _ _ _ E1).
    rewrite (bind_ok _ _ _ tt _
               (move_elements_ok c v u1 (N.of_nat e) (N.of_nat s)
                  (N.of_nat (length xs) - N.of_nat e) tail Hst
                  ltac:(lia) ltac:(lia) ltac:(lia) ltac:(rewrite Nat2N.id; exact Ht))).
    unfold setv. cbn [fst snd]. reflexivity.
  - rewrite Nat2N.id. unfold VecSpec.sp_drain. fold tail.
    apply rep_of_held; cbn [vlen vcap with_len with_mem]; auto.
    + rewrite app_length. lia.
    + lia.
    + apply held_app; [exact Hp'|]. rewrite Hlp. exact Ht'.
    + apply Forall_app. split; [apply Forall_firstn' | apply Forall_skipn']; exact Htok.
  - cbn [vcap vbk with_len with_mem]. auto.
Qed.

(** what a fused step may do: as [step_ok], but the fuse may still be armed afterwards ([run_step] disarms it) *)
Record step_okf (c : cfg) (w w' : world) (st' : astate) (evs : list event) (dnx : N) : Prop := {
  sf_rep : WRep c w' st';
  sf_nx : unext (wuw w') = unext (wuw w) + dnx;
  sf_evs : uevents (wuw w') = rev evs ++ uevents (wuw w)
}.
Definition res_matches_f (c : cfg) (w : world) (x : res world (N * list N)) (r : sres) : Prop :=
  match x with
  | Ok (out, ret) w' => s_out r = out /\ s_pk r = 0 /\ s_ret r = ret /\
                        step_okf c w w' (s_st r) (s_evs r) (s_nx r - unext (wuw w))
  | Panic p w' => s_out r = 2 /\ s_pk r = panic_code p /\ s_ret r = [] /\
                  step_okf c w w' (s_st r) (s_evs r) (s_nx r - unext (wuw w))
  | Fault _ => False
  end.

Lemma exec_clear_f c w st a v k r :
  WRep c w st -> ufuse (wuw w) = Some k -> sp_clear_f c st (unext (wuw w)) v k = Some r ->
  res_matches_f c w (exec c (OClear a v) w) r.
Proof.
  intros HW Hfuse Hr.
  unfold sp_clear_f in Hr.
  destruct (get_a v st) as [av|] eqn:Hg; [|discriminate]. cbv zeta in Hr.
  destruct (wrep_get c w st v av HW Hg) as (vv & Hgv & HV).
  destruct (clear_fused c vv (wuw w) (a_xs av) k (vi_rep _ _ _ HV) Hfuse) as (u' & E & HR' & Hn & Hl).
  assert (HV' : VI c (with_len 0 vv) (with_xs av [])).
  { destruct HV as [HR Hbk Hbw Hcap Hfits]. constructor; cbn [with_xs a_bk a_xs with_len vbk vcap]; auto. }
  assert (Hrep : WRep c (put_vec v (Some (with_len 0 vv)) u' w) (set_a v (Some (with_xs av [])) st)).
  { apply wrep_put; [exact HW|exact HV']. }
  cbn [exec]. unfold bind.
  destruct (c_dg c && (k <? N.of_nat (length (a_xs av)))) eqn:Ecase; injection Hr as <-.
  - rewrite (on_vec_panic v _ w vv PUser _ u' Hgv E).
    cbn [res_matches_f panic_res s_out s_pk s_ret s_st s_evs s_nx].
    split; [reflexivity|split; [reflexivity|split; [reflexivity|]]]. rewrite N.sub_diag.
    constructor; [exact Hrep|rewrite wuw_put; lia|].
    rewrite wuw_put. unfold uevents. rewrite Hl.
    apply andb_prop in Ecase. destruct Ecase as [Hdg Hlt]. rewrite Hdg, Hlt.
    exact (uevents_drops true (firstn (S (N.to_nat k)) (a_xs av)) (ulog (wuw w))).
  - rewrite (on_vec_ok v _ w vv tt _ u' Hgv E). unfold ret.
    cbn [res_matches_f ok_res s_out s_pk s_ret s_st s_evs s_nx].
    split; [reflexivity|split; [reflexivity|split; [reflexivity|]]]. rewrite N.sub_diag.
    constructor; [exact Hrep|rewrite wuw_put; lia|].
    rewrite wuw_put. unfold uevents. rewrite Hl.
    destruct (c_dg c) eqn:Hdg; [|reflexivity]. cbn [andb] in Ecase. rewrite Ecase.
    exact (uevents_drops true (a_xs av) (ulog (wuw w))).
Qed.

Lemma exec_take_drop_f c w st a vid tk idx k r :
  cfg_wf c -> WRep c w st -> ufuse (wuw w) = Some k -> (tk = TPop -> idx = 0) ->
  sp_take_drop_f c st (unext (wuw w)) vid tk idx k = Some r ->
  res_matches_f c w (take_prog c a vid tk idx KDrop w) r.
Proof.
  intros Hwf HW Hfuse Hpop Hr. unfold sp_take_drop_f in Hr.
  destruct (sp_take c st (unext (wuw w)) vid tk idx KDrop) as [r0|] eqn:E0; [|discriminate].
  unfold sp_take in E0. destruct (get_a vid st) as [av|] eqn:Hg; [|discriminate].
  set (xs := a_xs av) in *. cbv zeta in E0.
  assert (Hcase : (tk = TPop /\ xs = []) \/ (tk <> TPop /\ N.of_nat (length xs) <= idx) \/
                  exists i, temp_req tk i xs /\ (tk <> TPop -> idx = N.of_nat i) /\
                            i = match tk with TPop => (length xs - 1)%nat | _ => N.to_nat idx end).
  { destruct tk.
    - destruct xs as [|x xs'] eqn:Ex; [left; auto|]. right. right. exists (length (x :: xs') - 1)%nat.
      unfold temp_req. cbn [length]. repeat split; try lia; intros; try congruence.
    - destruct (N.lt_ge_cases idx (N.of_nat (length xs))) as [Hlt|Hge].
      + right. right. exists (N.to_nat idx). unfold temp_req. repeat split; try lia; intros; try congruence.
      + right. left. split; [discriminate|exact Hge].
    - destruct (N.lt_ge_cases idx (N.of_nat (length xs))) as [Hlt|Hge].
      + right. right. exists (N.to_nat idx). unfold temp_req. repeat split; try lia; intros; try congruence.
      + right. left. split; [discriminate|exact Hge]. }
  unfold take_prog.
  destruct Hcase as [[Hk Hx]|[[Hk Hoob]|(i & Hreq & Hidx & Hi)]].
  - (* pop on an empty vector *)
    subst tk. rewrite (Hpop eq_refl) in *. rewrite Hx in E0. cbn [length Nat.eqb] in E0. injection E0 as <-.
    cbn [none_res s_out N.eqb andb] in Hr. rewrite Bool.andb_false_r in Hr. injection Hr as <-.
    unfold bind. rewrite (temp_open_pop_empty c w st vid av HW Hg Hx). unfold ret.
    cbn [res_matches_f none_res s_out s_pk s_ret s_st s_evs s_nx].
    split; [reflexivity|split; [reflexivity|split; [reflexivity|]]]. rewrite N.sub_diag.
    constructor; [exact HW|lia|reflexivity].
  - (* index out of range *)
    assert (Hr0 : r0 = panic_res PIndex [] st (unext (wuw w))).
    { destruct tk; [congruence| |]; destruct (N.ltb_spec idx (N.of_nat (length xs))) as [Hlt|_]; try lia; congruence. }
    subst r0. cbn [panic_res s_out N.eqb] in Hr. rewrite Bool.andb_false_r in Hr. injection Hr as <-.
    unfold bind. rewrite (temp_open_oob c w st vid av tk idx HW Hg Hk Hoob).
    cbn [res_matches_f panic_res s_out s_pk s_ret s_st s_evs s_nx].
    split; [reflexivity|split; [reflexivity|split; [reflexivity|]]]. rewrite N.sub_diag.
    constructor; [exact HW|lia|reflexivity].
  - (* a handle for element i *)
    destruct (temp_open_some c w st vid av tk idx i HW Hg Hreq Hidx) as (vv & h & Hgv & HV & Hfor & Eo).
    unfold bind at 1. rewrite Eo.
    assert (Hsel : (match tk with
                    | TPop => if (length xs =? 0)%nat then inr (none_res st (unext (wuw w))) else inl (Some (length xs - 1)%nat)
                    | _ => if idx <? N.of_nat (length xs) then inl (Some (N.to_nat idx))
                           else inr (panic_res PIndex [] st (unext (wuw w)))
                    end : option nat + sres) = inl (Some i)).
    { destruct Hreq as [Hi' _]. subst i. destruct tk.
      - destruct (Nat.eqb_spec (length xs) 0); [lia|reflexivity].
      - destruct (N.ltb_spec idx (N.of_nat (length xs))); [reflexivity|lia].
      - destruct (N.ltb_spec idx (N.of_nat (length xs))); [reflexivity|lia]. }
    rewrite Hsel in E0. cbn [sp_sink] in E0. unfold sp_take_elem in E0. cbv zeta in E0. injection E0 as <-.
    cbn [ok_res s_out N.eqb] in Hr. rewrite Bool.andb_true_r in Hr.
    pose proof (vi_rep _ _ _ HV) as HR. fold xs in HR.
    set (wl := with_len (N.of_nat i) vv) in *.
    set (w1 := put_vec vid (Some wl) (wuw w) w) in *.
    pose proof (temp_drop_fused c vv (wuw w) xs tk i h (known_of a) k HR Hreq Hfor Hfuse) as Hd.
    cbn [apply_sink]. unfold bind.
    destruct (c_dg c && (k =? 0)) eqn:Ecase.
    + (* the destructor panics *)
      destruct Hd as (u' & Ed & Hn' & Hl').
      rewrite <- Hi in Hr. injection Hr as <-.
      rewrite (on_vec_panic vid _ w1 wl PUser wl u' (get_vec_put_same _ _ _ _) Ed).
      cbn [res_matches_f panic_res s_out s_pk s_ret s_st s_evs s_nx].
      split; [reflexivity|split; [reflexivity|split; [reflexivity|]]]. rewrite N.sub_diag.
      constructor.
      * intros n. unfold w1. rewrite put_put_slot.
        apply (wrep_put c w st vid (Some wl) (Some (with_xs av (firstn i xs))) u' HW).
        apply vi_prefix; [exact HV|]. apply Nat.lt_le_incl. exact (proj1 Hreq).
      * rewrite wuw_put. lia.
      * rewrite wuw_put. unfold uevents. rewrite Hl'. cbn [filter is_user_event rev app]. reflexivity.
    + destruct Hd as (v' & u' & Ed & HR' & Hc & Hb & Hn' & Hl').
      injection Hr as <-.
      rewrite (on_vec_ok vid _ w1 wl tt v' u' (get_vec_put_same _ _ _ _) Ed). unfold ret.
      cbn [res_matches_f ok_res s_out s_pk s_ret s_st s_evs s_nx].
      split; [reflexivity|split; [reflexivity|split; [reflexivity|]]]. rewrite N.sub_diag.
      constructor.
      * intros n. unfold w1. rewrite put_put_slot.
        apply (wrep_put c w st vid (Some v') (Some (with_xs av (take_result tk i xs))) u' HW).
        apply (vi_take c vv av tk i v' HV HR' Hc Hb).
      * rewrite wuw_put. lia.
      * rewrite wuw_put. apply uevents_app_drop. exact Hl'.
Qed.

Lemma exec_dropvec_f c w st v k r0 :
  WRep c w st -> ufuse (wuw w) = Some k -> sp_clear_f c st (unext (wuw w)) v k = Some r0 ->
  res_matches_f c w (exec c (ODropVec v) w)
    {| s_out := s_out r0; s_pk := s_pk r0; s_ret := s_ret r0; s_evs := s_evs r0; s_st := set_a v None st; s_nx := s_nx r0 |}.
Proof.
  intros HW Hfuse Hr.
  unfold sp_clear_f in Hr.
  destruct (get_a v st) as [av|] eqn:Hg; [|discriminate]. cbv zeta in Hr.
  destruct (wrep_get c w st v av HW Hg) as (vv & Hgv & HV).
  destruct (clear_fused c vv (wuw w) (a_xs av) k (vi_rep _ _ _ HV) Hfuse) as (u' & E & HR' & Hn & Hl).
  cbn [exec]. rewrite Hgv.
  assert (Hrep : forall u2 w2, wv w2 = wv w -> WRep c (put_vec v None u2 w2) (set_a v None st)).
  { intros u2 w2 Hwv n. unfold put_vec, set_a. cbn [wv]. rewrite Hwv, !slot_set_nth.
    destruct (Nat.eqb n v); [exact I|apply HW]. }
  destruct (c_dg c && (k <? N.of_nat (length (a_xs av)))) eqn:Ecase; injection Hr as <-.
  - (* a destructor panics: the storage is still released *)
    destruct (mem_drop_ok c (with_len 0 vv) (disarm u')) as (v2 & u2 & Ed & _ & Hn2 & Hf2 & He2).
    assert (Edv : drop_vec c (vv, wuw w) = Panic PUser (v2, {| ulog := ulog u2; unext := unext u2; ufuse := ufuse u' |})).
    { unfold drop_vec. apply bind_panic. unfold unwinding_st, on_unwind. rewrite E.
      unfold quiet_st. cbn [fst snd]. rewrite Ed. reflexivity. }
    rewrite (on_vec_panic v _ w vv PUser _ _ Hgv Edv).
    cbn [res_matches_f panic_res s_out s_pk s_ret s_st s_evs s_nx].
    split; [reflexivity|split; [reflexivity|split; [reflexivity|]]]. rewrite N.sub_diag.
    constructor.
    + rewrite wuw_put. intros n. rewrite put_put_slot. apply Hrep. reflexivity.
    + rewrite !wuw_put. cbn [unext]. rewrite Hn2. cbn [disarm unext]. lia.
    + rewrite !wuw_put. unfold uevents at 1. cbn [ulog]. fold (uevents u2). rewrite He2.
      unfold uevents. cbn [disarm ulog]. rewrite Hl.
      apply andb_prop in Ecase. destruct Ecase as [Hdg Hlt]. rewrite Hdg, Hlt.
      exact (uevents_drops true (firstn (S (N.to_nat k)) (a_xs av)) (ulog (wuw w))).
  - destruct (mem_drop_ok c (with_len 0 vv) u') as (v2 & u2 & Ed & _ & Hn2 & Hf2 & He2).
    assert (Edv : drop_vec c (vv, wuw w) = Ok tt (v2, u2)).
    { unfold drop_vec. rewrite (bind_ok _ _ _ _ _ (unwinding_ok _ _ _ _ _ E)). exact Ed. }
    rewrite (on_vec_ok v _ w vv tt _ _ Hgv Edv).
    cbn [res_matches_f ok_res s_out s_pk s_ret s_st s_evs s_nx].
    split; [reflexivity|split; [reflexivity|split; [reflexivity|]]]. rewrite N.sub_diag.
    constructor.
    + rewrite wuw_put. intros n. rewrite put_put_slot. apply Hrep. reflexivity.
    + rewrite !wuw_put. rewrite Hn2. lia.
    + rewrite !wuw_put. rewrite He2. unfold uevents. rewrite Hl.
      destruct (c_dg c) eqn:Hdg; [|reflexivity]. cbn [andb] in Ecase. rewrite Ecase.
      exact (uevents_drops true (a_xs av) (ulog (wuw w))).
Qed.

Lemma exec_drain_f c w st a vid sb eb k r :
  cfg_wf c -> WRep c w st -> ufuse (wuw w) = Some k ->
  sp_drain_f c st (unext (wuw w)) a vid sb eb k = Some r ->
  res_matches_f c w (exec c (ODrain a vid sb eb [] FinDrop) w) r.
Proof.
  intros Hwf HW Hfuse Hr. unfold sp_drain_f in Hr.
  destruct (get_a vid st) as [av|] eqn:Hg; [|discriminate].
  destruct (wrep_get c w st vid av HW Hg) as (vv & Hgv & HV).
  pose proof (vi_rep _ _ _ HV) as HR. pose proof (rep_len _ _ _ HR) as Hlen.
  set (xs := a_xs av) in *. cbv zeta in Hr.
  cbn [exec]. rewrite (bind_ok _ _ _ _ _ (peek_vec_ok vid w vv Hgv)). rewrite Hlen.
  destruct (range_of_bounds usize_max (N.of_nat (length xs)) (to_sb sb) (to_sb eb)) as [[sN eN]|] eqn:Erb.
  - destruct (into_range_ok _ sb eb (vv, wuw w) sN eN Erb) as (Eir & Hse & Hel).
    set (s := N.to_nat sN) in *. set (e := N.to_nat eN) in *.
    assert (HsN : sN = N.of_nat s) by (unfold s; rewrite N2Nat.id; reflexivity).
    assert (HeN : eN = N.of_nat e) by (unfold e; rewrite N2Nat.id; reflexivity).
    assert (Hse' : (s <= e)%nat) by lia. assert (Hel' : (e <= length xs)%nat) by lia.
    rewrite (bind_ok _ _ _ _ _ (on_vec_ok vid _ w vv _ vv (wuw w) Hgv Eir)). cbn [fst snd].
    set (w1 := put_vec vid (Some vv) (wuw w) w).
    set (vr := with_len (N.of_nat s) vv).
    pose proof (drain_new_spec c vv (wuw w) xs s e HR Hse' Hel') as Edn. rewrite <- HsN, <- HeN in Edn.
    rewrite (bind_ok _ _ _ _ _ (on_vec_ok vid _ w1 vv _ _ _ (get_vec_put_same vid (Some vv) (wuw w) w) Edn)).
    rewrite HsN, HeN. fold vr.
    set (w2 := put_vec vid (Some vr) (wuw w1) w1).
    cbn [walk dcur]. unfold ret at 1. unfold bind at 1. cbn [fst snd].
    change (put_vec vid (Some vr) (wuw w) w1) with w2.
    pose proof (range_alive_any c vv xs s e s e HR (le_n s) Hse' (le_n e) Hel') as HA. fold vr in HA.
    set (range := firstn (e - s) (skipn s xs)) in *.
    assert (Hlr : length range = (e - s)%nat).
    { unfold range. rewrite firstn_length_le; [reflexivity|rewrite skipn_length; lia]. }
    assert (HA' := HA). destruct HA' as [Hle' Hlen' Hcap' Hus' Hst' Hp' Hm' Ht' Htok'].
    assert (Htokm : Forall (tok_ok (szn c)) range) by (apply Forall_firstn', Forall_skipn'; exact Htok').
    destruct (drop_range_fused c (known_of a) vr (wuw w) range s e k Hst' Hse' ltac:(lia) Hlr Hm' Htokm Hfuse)
      as (u' & Edr & Hn' & Hl').
    assert (Hg2 : get_vec vid w2 = Some vr) by (apply get_vec_put_same).
    assert (Hu2 : wuw w2 = wuw w) by reflexivity.
    destruct (c_dg c && (k <? N.of_nat (e - s))) eqn:Ecase.
    + (* a destructor panics: the tail is not moved *)
      injection Hr as <-.
      assert (Edd : drain_drop c (known_of a) (with_cur {| ci := N.of_nat s; ce := N.of_nat e |}
                       {| dcur := {| ci := N.of_nat s; ce := N.of_nat e |}; dstart := N.of_nat s; dend := N.of_nat e;
                          dorig := N.of_nat (length xs) |}) (vr, wuw w2) = Panic PUser (vr, u')).
      { unfold drain_drop, with_cur. cbn [dcur ci ce dend dstart dorig]. apply bind_panic. rewrite Hu2. exact Edr. }
      unfold bind at 1. rewrite (on_vec_panic vid _ w2 vr PUser vr u' Hg2 Edd).
      cbn [res_matches_f panic_res s_out s_pk s_ret s_st s_evs s_nx].
      split; [reflexivity|split; [reflexivity|split; [reflexivity|]]]. rewrite N.sub_diag.
      constructor.
      * intros n. unfold w2, w1. rewrite !put_put_slot.
        apply (wrep_put c w st vid (Some vr) (Some (with_xs av (firstn s xs))) u' HW).
        apply vi_prefix; [exact HV|unfold xs in *; lia].
      * rewrite wuw_put. lia.
      * rewrite wuw_put. unfold uevents. rewrite Hl'.
        apply andb_prop in Ecase. destruct Ecase as [Hdg Hlt]. rewrite Hdg, Hlt.
        destruct a; cbn [known_of]; apply (uevents_drops true).
    + (* no panic inside this step *)
      unfold sp_drain in Hr. rewrite Hg in Hr. fold xs in Hr. cbv zeta in Hr. rewrite Erb in Hr.
      cbn [sp_walk] in Hr. fold s e in Hr. injection Hr as <-.
      destruct (drain_drop_after c vr (wuw w) u' xs s e s e (known_of a) HA Edr) as (v' & Edd & HR' & Hc' & Hb').
      assert (Edd' : drain_drop c (known_of a) (with_cur {| ci := N.of_nat s; ce := N.of_nat e |}
                       {| dcur := {| ci := N.of_nat s; ce := N.of_nat e |}; dstart := N.of_nat s; dend := N.of_nat e;
                          dorig := N.of_nat (length xs) |}) (vr, wuw w2) = Ok tt (v', u')).
      { rewrite Hu2. exact Edd. }
      unfold bind at 1. rewrite (on_vec_ok vid _ w2 vr tt v' u' Hg2 Edd'). unfold ret.
      assert (Hcl : cur_len {| ci := N.of_nat s; ce := N.of_nat e |} = N.of_nat (e - s)) by (unfold cur_len; cbn [ci ce]; lia).
      rewrite Hcl.
      cbn [res_matches_f ok_res s_out s_pk s_ret s_st s_evs s_nx flat_map app].
      split; [reflexivity|split; [reflexivity|split; [reflexivity|]]]. rewrite N.sub_diag.
      constructor.
      * intros n. unfold w2, w1. rewrite !put_put_slot.
        apply (wrep_put c w st vid (Some v') (Some (with_xs av (VecSpec.sp_drain s e xs))) u' HW).
        destruct HV as [HRv Hbk Hbw Hcap Hfits]. constructor; cbn [with_xs a_bk a_xs]; auto.
        -- unfold vr in Hb'. cbn [with_len vbk] in Hb'. congruence.
        -- unfold vr in Hc'. cbn [with_len vcap] in Hc'. destruct (acap c (a_bk av)); [congruence|exact I].
      * rewrite wuw_put. lia.
      * rewrite wuw_put. unfold uevents. rewrite Hl'. fold range.
        destruct (c_dg c) eqn:Hdg; [|reflexivity]. cbn [andb] in Ecase. rewrite Ecase.
        exact (uevents_drops true range (ulog (wuw w))).
  - (* invalid range *)
    injection Hr as <-.
    pose proof (into_range_panic _ sb eb (vv, wuw w) Erb) as Ep.
    rewrite (bind_panic _ _ _ _ _ (on_vec_panic vid _ w vv _ vv (wuw w) Hgv Ep)).
    cbn [res_matches_f panic_res s_out s_pk s_ret s_st s_evs s_nx].
    split; [reflexivity|split; [reflexivity|split; [reflexivity|]]]. rewrite N.sub_diag.
    constructor.
    + apply (wrep_put_same c w st vid vv av); assumption.
    + rewrite wuw_put. lia.
    + rewrite wuw_put. reflexivity.
Qed.

Lemma exec_fused c w st k o r :
  cfg_wf c -> WRep c w st -> ufuse (wuw w) = Some k ->
  spec_step_f c st (unext (wuw w)) (Some k) o = Some r ->
  res_matches_f c w (exec c o w) r.
Proof.
  intros Hwf HW Hfuse Hr. cbn [spec_step_f] in Hr.
  destruct o; try discriminate.
  - (* ODropVec *)
    destruct (sp_clear_f c st (unext (wuw w)) v k) as [r0|] eqn:E0; [|discriminate]. injection Hr as <-.
    exact (exec_dropvec_f c w st v k r0 HW Hfuse E0).
  - (* OPop *) destruct k0; try discriminate.
    exact (exec_take_drop_f c w st a v TPop 0 k r Hwf HW Hfuse (fun _ => eq_refl) Hr).
  - (* ORemove *) destruct k0; try discriminate.
    exact (exec_take_drop_f c w st a v TRemove idx k r Hwf HW Hfuse ltac:(discriminate) Hr).
  - (* OSwapRemove *) destruct k0; try discriminate.
    exact (exec_take_drop_f c w st a v TSwapRemove idx k r Hwf HW Hfuse ltac:(discriminate) Hr).
  - (* OClear *) exact (exec_clear_f c w st a v k r HW Hfuse Hr).
  - (* ODrain *) destruct pat; [|discriminate]. destruct f; [|discriminate].
    exact (exec_drain_f c w st a v sb eb k r Hwf HW Hfuse Hr).
Qed.

Definition armed (k : N) (w : world) : world :=
  {| wv := wv w; wuw := {| ulog := []; unext := unext (wuw w); ufuse := Some k |} |}.

Lemma spec_f_small c st nx k o r : spec_step_f c st nx (Some k) o = Some r -> nx <= s_nx r /\ s_out r < 100.
Proof.
  cbn [spec_step_f]. intros H.
  assert (Htd : forall v tk idx, sp_take_drop_f c st nx v tk idx k = Some r -> nx <= s_nx r /\ s_out r < 100).
  { intros v tk idx Ht. unfold sp_take_drop_f in Ht.
    destruct (sp_take c st nx v tk idx KDrop) as [r0|] eqn:E0; [|discriminate]. apply sp_take_nx in E0.
    destruct (c_dg c && (k =? 0) && (s_out r0 =? 0)); [|injection Ht as <-; exact E0].
    destruct (get_a v st); [|discriminate]. injection Ht as <-. cbn; split; lia. }
  destruct o; try discriminate; try (destruct k0; try discriminate; eapply Htd; exact H).
  - destruct (sp_clear_f c st nx v k) as [r0|] eqn:E0; [|discriminate]. injection H as <-. cbn [s_nx s_out].
    unfold sp_clear_f in E0. destruct (get_a v st) as [av|]; [|discriminate]. cbv zeta in E0.
    destruct (c_dg c && (k <? N.of_nat (length (a_xs av)))); injection E0 as <-; cbn; split; lia.
  - unfold sp_clear_f in H.
    destruct (get_a v st) as [av|]; [|discriminate]. cbv zeta in H.
    destruct (c_dg c && (k <? N.of_nat (length (a_xs av)))); injection H as <-; cbn; split; lia.
  - destruct pat; [|discriminate]. destruct f; [|discriminate]. unfold sp_drain_f in H.
    destruct (get_a v st) as [av|] eqn:Hg; [|discriminate]. cbv zeta in H.
    destruct (range_of_bounds usize_max (N.of_nat (length (a_xs av))) (to_sb sb) (to_sb eb)) as [[s0 e0]|].
    + destruct (c_dg c && (k <? N.of_nat (N.to_nat e0 - N.to_nat s0))).
      * injection H as <-. cbn; split; lia.
      * exact (sp_drain_nx _ _ _ _ _ _ _ _ _ H).
    + injection H as <-. cbn; split; lia.
Qed.

(** one script step, with or without a fuse *)
Theorem step_refines_f c w st fuse o r :
  cfg_wf c -> WRep c w st ->
  spec_step_f c st (unext (wuw w)) fuse o = Some r -> admissible c w o ->
  obs_match c (run_step c fuse o w) r.
Proof.
  intros Hwf HW Hr Hadm. destruct fuse as [k|].
  2:{ exact (step_refines c w st o r Hwf HW Hr Hadm). }
  assert (HW0 : WRep c (armed k w) st) by (apply (wrep_wv c w); [reflexivity|exact HW]).
  pose proof (exec_fused c (armed k w) st k o r Hwf HW0 eq_refl Hr) as Hx.
  destruct (spec_f_small _ _ _ _ _ _ Hr) as [Hge Hsm].
  unfold run_step. fold (armed k w).
  destruct (exec c o (armed k w)) as [[out ret] w'|p w'|f]; cbn [res_matches_f] in Hx; [| |contradiction].
  - destruct Hx as (Ho & Hp & Hrt & [HR Hn He]).
    constructor; cbn [sr_out sr_pkind sr_ret sr_world].
    + congruence.
    + congruence.
    + congruence.
    + unfold world_events. cbn [wuw disarm ulog]. rewrite filter_rev. fold (uevents (wuw w')).
      rewrite He. cbn [armed wuw uevents ulog filter]. rewrite app_nil_r, rev_involutive. reflexivity.
    + apply (wrep_wv c w'); [reflexivity|exact HR].
    + cbn [wuw disarm unext]. rewrite Hn. cbn [armed wuw unext] in *. lia.
    + rewrite <- Ho. exact Hsm.
  - destruct Hx as (Ho & Hp & Hrt & [HR Hn He]).
    constructor; cbn [sr_out sr_pkind sr_ret sr_world].
    + congruence.
    + congruence.
    + congruence.
    + unfold world_events. cbn [wuw disarm ulog]. rewrite filter_rev. fold (uevents (wuw w')).
      rewrite He. cbn [armed wuw uevents ulog filter]. rewrite app_nil_r, rev_involutive. reflexivity.
    + apply (wrep_wv c w'); [reflexivity|exact HR].
    + cbn [wuw disarm unext]. rewrite Hn. cbn [armed wuw unext] in *. lia.
    + lia.
Qed.

Fixpoint run_hist_f (c : cfg) (ops : list (option N * op)) (w : world) : list step_result :=
  match ops with
  | [] => []
  | (f, o) :: r => let sr := run_step c f o w in sr :: run_hist_f c r (sr_world sr)
  end.
Fixpoint Admissible_f (c : cfg) (w : world) (ops : list (option N * op)) : Prop :=
  match ops with
  | [] => True
  | (f, o) :: r => admissible c w o /\ Admissible_f c (sr_world (run_step c f o w)) r
  end.

(** whole histories, every step of which may carry a fuse: the machine does what the specification says *)
Theorem history_refines_f c ops : forall w st rs,
  cfg_wf c -> WRep c w st ->
  spec_run_f c st (unext (wuw w)) ops = Some rs -> Admissible_f c w ops ->
  Forall2 (obs_match c) (run_hist_f c ops w) rs.
Proof.
  induction ops as [|[f o] ops IH]; intros w st rs Hwf HW Hs Ha; cbn [spec_run_f run_hist_f] in *.
  - injection Hs as <-. constructor.
  - destruct (spec_step_f c st (unext (wuw w)) f o) as [x|] eqn:Ex; [|discriminate].
    destruct Ha as [Ha1 Ha2].
    pose proof (step_refines_f c w st f o x Hwf HW Ex Ha1) as Hm.
    destruct (spec_run_f c (s_st x) (s_nx x) ops) as [l|] eqn:El; [|discriminate]. injection Hs as <-.
    constructor; [exact Hm|].
    apply (IH _ (s_st x)); auto.
    + apply (om_rep _ _ _ Hm).
    + rewrite (om_nx _ _ _ Hm). exact El.
Qed.

(** non-vacuity: a history with armed fuses, and what the theorem says about it *)
Definition exf_ops : list (option N * op) :=
  [ (None, ONew 0 BHeap); (None, OPush Erased 0 SWrap); (None, OPush Erased 0 SWrap); (None, OPush Erased 0 SWrap);
    (None, OPush Erased 0 SWrap);
    (Some 0, ORemove Erased 0 1 KDrop);      (* the destructor of the removed element panics: the tail is leaked *)
    (Some 3, OPop Typed 0 KDrop);            (* the fuse is longer than the step: nothing happens *)
    (None, OPush Erased 0 SWrap); (None, OPush Erased 0 SWrap); (None, OPush Erased 0 SWrap);
    (Some 1, OClear Erased 0);               (* the second destructor panics: the third element is leaked *)
    (Some 0, OPop Erased 0 KDrop);           (* empty: None *)
    (None, OPush Erased 0 SWrap); (Some 5, OClear Typed 0); (None, ODropVec 0);
    (None, ONew 1 BHeap); (None, OPush Erased 1 SWrap); (None, OPush Erased 1 SWrap);
    (Some 0, ODropVec 1);                    (* the vector is dropped, its first destructor panics: the second element is leaked *)
    (None, ONew 2 BHeap); (None, OPush Erased 2 SWrap); (None, OPush Erased 2 SWrap); (None, OPush Erased 2 SWrap); (None, OPush Erased 2 SWrap);
    (Some 1, ODrain Erased 2 (BIncluded 0) (BExcluded 3) [] FinDrop);   (* erased drain: stops at the panicking destructor *)
    (None, OPush Erased 2 SWrap); (None, OPush Erased 2 SWrap); (None, OPush Erased 2 SWrap);
    (Some 0, ODrain Typed 2 BUnbounded (BExcluded 2) [] FinDrop);       (* typed drain: the slice drop goes on, then unwinds *)
    (Some 7, ODrain Typed 2 BUnbounded BUnbounded [] FinDrop) ].
Example exf_outcomes :
  map (fun r => (s_out r, s_pk r, s_evs r, map (fun o => match o with Some a => a_xs a | None => [] end) (s_st r)))
      (match spec_run_f ex_cfg [] 1 exf_ops with Some rs => rs | None => [] end)
  = [(0,0,[],[[]]); (0,0,[],[[1]]); (0,0,[],[[1;2]]); (0,0,[],[[1;2;3]]); (0,0,[],[[1;2;3;4]]);
     (2,8,[EDrop 2],[[1]]); (0,0,[EDrop 1],[[]]);
     (0,0,[],[[5]]); (0,0,[],[[5;6]]); (0,0,[],[[5;6;7]]);
     (2,8,[EDrop 5; EDrop 6],[[]]); (1,0,[],[[]]);
     (0,0,[],[[8]]); (0,0,[EDrop 8],[[]]); (0,0,[],[[]]);
     (0,0,[],[[]; []]); (0,0,[],[[]; [9]]); (0,0,[],[[]; [9;10]]); (2,8,[EDrop 9],[[]; []]);
     (0,0,[],[[]; []; []]); (0,0,[],[[]; []; [11]]); (0,0,[],[[]; []; [11;12]]); (0,0,[],[[]; []; [11;12;13]]); (0,0,[],[[]; []; [11;12;13;14]]);
     (2,8,[EDrop 11; EDrop 12],[[]; []; []]);
     (0,0,[],[[]; []; [15]]); (0,0,[],[[]; []; [15;16]]); (0,0,[],[[]; []; [15;16;17]]);
     (2,8,[EDrop 15; EDrop 16],[[]; []; []]); (0,0,[],[[]; []; []])].
Proof. vm_compute. reflexivity. Qed.
Fixpoint Admissible_fb (c : cfg) (w : world) (ops : list (option N * op)) : bool :=
  match ops with
  | [] => true
  | (f, o) :: r => admissibleb c w o && Admissible_fb c (sr_world (run_step c f o w)) r
  end.
Lemma Admissible_fb_sound c ops : forall w, Admissible_fb c w ops = true -> Admissible_f c w ops.
Proof.
  induction ops as [|[f o] r IH]; intros w H; cbn [Admissible_fb Admissible_f] in *; [exact I|].
  apply andb_prop in H. destruct H as [H1 H2]. split; [apply admissibleb_sound; exact H1|apply IH; exact H2].
Qed.
Example exf_admissible : Admissible_f ex_cfg init_world exf_ops.
Proof. apply Admissible_fb_sound. vm_compute. reflexivity. Qed.
