(** * Ownership over whole histories (C03), on the list specification.

    For every history of the specification ([WorldSpec.spec_run]): the identities created so far
    are, as a multiset, exactly those visible in some vector + those destroyed + those leaked by a
    forgotten handle.  Hence (non-zero-sized types) nothing is destroyed twice, nothing destroyed
    or leaked is still visible, nothing is in two places; for zero-sized types (all identities are
    the unit token) the same statement is the accounting BY COUNT.  Through [history_refines] /
    [history_events] the destructor events and snapshots of the byte-level machine are the
    specification's, so the statement transfers to the machine. *)
From Coq Require Import List NArith Arith Lia Permutation.
Import ListNotations.
From AV.Model Require Import Base Bytes Vec Ops Interp.
From AV.Spec Require Import VecSpec.
From AV.Proofs Require Import OwnProofs.
From WIP Require Import WorldSpec.
From WIP Require WorldProofs WorldFused.
Open Scope N_scope.

Definition slot_xs (o : option avec) : list N := match o with Some a => a_xs a | None => [] end.
(** everything visible in some vector *)
Definition vis (st : astate) : list N := flat_map slot_xs st.
(** identities whose destructor ran in a step *)
Definition drops (evs : list event) : list N :=
  flat_map (fun e => match e with EDrop t => [t] | _ => [] end) evs.
(** identities that become unreachable without being destroyed: the tail hidden by a forgotten
    removal handle (and the contents of a slot overwritten by [new]) *)
Definition new_leak (c : cfg) (st : astate) (dst : nat) (bk : bkind) : list N :=
  match bk with
  | BStackN n size => if stackn_fits n (c_sz c) size then slot_xs (get_a dst st) else []
  | _ => slot_xs (get_a dst st)
  end.
(** what a forgotten handle hides: the element and the tail behind it - after whatever was done through the
    handle before *)
Fixpoint sink_leak (c : cfg) (st : astate) (nx : N) (v : nat) (a : avec) (i : nat) (sk : sink) : list N :=
  match sk with
  | KForget => skipn i (a_xs a)
  | KMut sk' => let a' := with_xs a (sp_upd i (tok c nx) (a_xs a)) in sink_leak c (set_a v (Some a') st) (nx + 1) v a' i sk'
  | KLazyDown n sk' => sink_leak c st (nx + n) v a i sk'
  | KLazy n dst sk' =>
      if Nat.eqb dst v then []
      else match get_a dst st with
           | None => []
           | Some b =>
               let '(b', _, nx', ok) := sp_lazy_pushes c b (nth i (a_xs a) 0) nx (N.to_nat n) in
               if ok then sink_leak c (set_a dst (Some b') st) nx' v a i sk' else []
           end
  | _ => []
  end.
Definition leak_of (c : cfg) (st : astate) (nx : N) (o : op) : list N :=
  match o with
  | OPop _ v k =>
      match get_a v st with
      | Some a => if (length (a_xs a) =? 0)%nat then [] else sink_leak c st nx v a (length (a_xs a) - 1) k
      | None => []
      end
  | ORemove _ v idx k | OSwapRemove _ v idx k =>
      match get_a v st with
      | Some a => if idx <? N.of_nat (length (a_xs a)) then sink_leak c st nx v a (N.to_nat idx) k else []
      | None => []
      end
  | ODrain _ v sb eb pat f =>
      (* a leaked drain: the not yet yielded part of the range and the tail behind it; items the caller forgot *)
      match get_a v st with
      | Some a =>
          let xs := a_xs a in
          match range_of_bounds usize_max (N.of_nat (length xs)) (to_sb sb) (to_sb eb) with
          | Some (s, e) =>
              match sp_walk xs pat (N.to_nat s) (N.to_nat e) with
              | Some (_, _, i, j) =>
                  match f with FinForget => firstn (j - i) (skipn i xs) ++ skipn (N.to_nat e) xs | FinDrop => [] end
              | None =>
                  match sp_walk_mv c v xs pat (N.to_nat s) (N.to_nat e) (set_a v (Some (with_xs a (firstn (N.to_nat s) xs))) st) nx with
                  | Some (WDone _ _ i j _ lost _) =>
                      lost ++ match f with FinForget => firstn (j - i) (skipn i xs) ++ skipn (N.to_nat e) xs | FinDrop => [] end
                  | Some (WStop _ _ _ _ _ lost _) => lost
                  | None => []
                  end
              end
          | None => []
          end
      | None => []
      end
  | OSplice _ v sb eb pat f rk n (Some j) cl =>
      (* a replacement value of another type: the values written in front of it are in the storage but never
         counted - leaked, like the rest of the range and the tail when the splice is refused or forgotten *)
      match get_a v st with
      | Some a =>
          let xs := a_xs a in
          match range_of_bounds usize_max (N.of_nat (length xs)) (to_sb sb) (to_sb eb) with
          | Some (s, e) =>
              match sp_walk xs pat (N.to_nat s) (N.to_nat e) with
              | Some (_, _, i, j2) =>
                  let hidden := firstn (j2 - i) (skipn i xs) ++ skipn (N.to_nat e) xs in
                  match f with
                  | FinForget => hidden ++ next_ids c nx (N.to_nat n)
                  | FinDrop =>
                      let new_len := N.of_nat (N.to_nat s) + n + N.of_nat (length xs - N.to_nat e) in
                      if (usize_max <? new_len)
                         || (match acap c (a_bk a) with Some cap => cap <? new_len | None => false end)
                      then hidden
                      else firstn (N.to_nat j) (next_ids c nx (N.to_nat n)) ++ skipn (N.to_nat e) xs
                  end
              | None => []
              end
          | None => []
          end
      | None => []
      end
  | OSplice _ v sb eb pat f rk n wa cl =>
      (* a leaked splice: as a leaked drain, and the replacement values; a splice whose drop is refused
         (result too long): the rest of the range and the tail behind it; a lazily cloning splice whose
         source is empty panics before the range is touched *)
      if (match rk, wa with
          | RLazy src, None => match get_a src st with Some b => (0 <? n) && (length (a_xs b) =? 0)%nat | None => false end
          | _, _ => false
          end) then [] else
      match get_a v st with
      | Some a =>
          let xs := a_xs a in
          match range_of_bounds usize_max (N.of_nat (length xs)) (to_sb sb) (to_sb eb) with
          | Some (s, e) =>
              match sp_walk xs pat (N.to_nat s) (N.to_nat e) with
              | Some (_, _, i, j) =>
                  let hidden := firstn (j - i) (skipn i xs) ++ skipn (N.to_nat e) xs in
                  match f with
                  | FinForget =>
                      (* replacement items that own their value leak it with the iterator; lazy clones own nothing *)
                      hidden ++ (match rk, wa with RLazy _, None => [] | _, _ => next_ids c nx (N.to_nat n) end)
                  | FinDrop =>
                      let new_len := N.of_nat (N.to_nat s) + cl + N.of_nat (length xs - N.to_nat e) in
                      if (usize_max <? new_len)
                         || (match acap c (a_bk a) with Some cap => cap <? new_len | None => false end)
                      then hidden else []
                  end
              | None =>
                  (* items moved elsewhere or forgotten ([sp_splice_mv]) *)
                  match sp_walk_mv c v xs pat (N.to_nat s) (N.to_nat e) (set_a v (Some (with_xs a (firstn (N.to_nat s) xs))) st) (nx + n) with
                  | Some (WDone _ _ i j _ lost _) =>
                      let hidden := firstn (j - i) (skipn i xs) ++ skipn (N.to_nat e) xs in
                      lost ++ match f with
                              | FinForget => hidden ++ next_ids c nx (N.to_nat n)
                              | FinDrop =>
                                  match sp_splice_fin c a (N.to_nat s) (N.to_nat e) i j (next_ids c nx (N.to_nat n)) cl n with
                                  | inl _ => hidden
                                  | inr _ => []
                                  end
                              end
                  | Some (WStop _ _ _ _ _ lost _) => lost
                  | None => []
                  end
              end
          | None => []
          end
      | None => []
      end
  | OWithCapacity dst bk n =>
      (* a refused capacity replaces nothing *)
      if resizable bk then (if layout_limit c bk <? c_sz c * n then [] else new_leak c st dst bk) else []
  | ONew dst bk =>
      (* a vector built into an occupied slot replaces what was there *)
      new_leak c st dst bk
  | OClone v dst => if Nat.eqb dst v then [] else match get_a v st with Some _ => slot_xs (get_a dst st) | None => [] end
  | OCloneEmpty v dst =>
      match get_a v st with Some a => if Nat.eqb dst v then [] else new_leak c st dst (a_bk a) | None => [] end
  | OCloneEmptyIn v dst bk =>
      match get_a v st with Some _ => if Nat.eqb dst v then [] else new_leak c st dst bk | None => [] end
  | _ => []
  end.

(** identities created while the counter went from 1 to [nx] *)
Fixpoint ids (c : cfg) (from : N) (n : nat) : list N :=
  match n with O => [] | S k => tok c from :: ids c (from + 1) k end.
Definition created (c : cfg) (nx : N) : list N := ids c 1 (N.to_nat (nx - 1)).

Lemma ids_snoc c from n : ids c from (S n) = ids c from n ++ [tok c (from + N.of_nat n)].
Proof.
  revert from. induction n as [|n IH]; intros from.
  - cbn [ids app]. rewrite N.add_0_r. reflexivity.
  - change (ids c from (S (S n))) with (tok c from :: ids c (from + 1) (S n)).
    rewrite IH. cbn [ids app]. do 3 f_equal. f_equal. rewrite Nat2N.inj_succ. lia.
Qed.
Lemma ids_app c from n m : ids c from (n + m) = ids c from n ++ ids c (from + N.of_nat n) m.
Proof.
  revert from. induction n as [|n IH]; intros from.
  - cbn [ids app Nat.add]. rewrite N.add_0_r. reflexivity.
  - cbn [Nat.add ids app]. f_equal. rewrite IH. do 2 f_equal. rewrite Nat2N.inj_succ. lia.
Qed.
Lemma ids_next c from n : ids c from n = next_ids c from n.
Proof.
  unfold next_ids. revert from. induction n as [|n IH]; intros from; [reflexivity|].
  cbn [ids seq map]. rewrite N.add_0_r. f_equal. rewrite IH, <- seq_shift, map_map.
  apply map_ext. intros k. f_equal. rewrite Nat2N.inj_succ. lia.
Qed.
Lemma created_add c nx n : 1 <= nx -> created c (nx + N.of_nat n) = created c nx ++ next_ids c nx n.
Proof.
  intros H. unfold created.
  assert (E : N.to_nat (nx + N.of_nat n - 1) = (N.to_nat (nx - 1) + n)%nat) by lia.
  rewrite E, ids_app, <- ids_next. do 2 f_equal. lia.
Qed.
Lemma created_succ c nx : 1 <= nx -> created c (nx + 1) = created c nx ++ [tok c nx].
Proof.
  intros H. unfold created.
  assert (E : N.to_nat (nx + 1 - 1) = S (N.to_nat (nx - 1))).
  { rewrite N.add_sub. rewrite <- N2Nat.inj_succ. f_equal. lia. }
  rewrite E, ids_snoc. do 3 f_equal. rewrite N2Nat.id. lia.
Qed.

(** ** The visible identities under a slot update *)
Lemma vis_set_nth (st : astate) v o :
  Permutation (vis (set_nth v o None st)) (slot_xs o ++ vis (set_nth v None None st)).
Proof.
  revert st. induction v as [|v IH]; intros st.
  - destruct st as [|x st]; cbn [set_nth vis flat_map slot_xs app]; rewrite ?app_nil_r; reflexivity.
  - destruct st as [|x st]; cbn [set_nth vis flat_map slot_xs app].
    + apply IH.
    + fold (vis (set_nth v o None st)). fold (vis (set_nth v None None st)).
      rewrite IH. rewrite !app_assoc. apply Permutation_app_tail. apply Permutation_app_comm.
Qed.
Lemma vis_get (st : astate) v :
  Permutation (vis st) (slot_xs (nth v st None) ++ vis (set_nth v None None st)).
Proof.
  revert st. induction v as [|v IH]; intros st.
  - destruct st as [|x st]; cbn [set_nth vis flat_map slot_xs app nth]; reflexivity.
  - destruct st as [|x st]; cbn [set_nth vis flat_map slot_xs app nth].
    + specialize (IH []). destruct v; exact IH.
    + fold (vis st). fold (vis (set_nth v None None st)).
      rewrite (IH st) at 1. rewrite !app_assoc. apply Permutation_app_tail. apply Permutation_app_comm.
Qed.
Lemma get_a_nth v st : get_a v st = nth v st None.
Proof.
  unfold get_a. revert v. induction st as [|x st IH]; intros v; destruct v; cbn [nth_error nth]; auto.
  destruct x; reflexivity.
Qed.

(** replacing the contents [xs] of vector [v] by [xs'] *)
Lemma vis_replace st v a xs' :
  get_a v st = Some a ->
  exists R, Permutation (vis st) (a_xs a ++ R) /\
            Permutation (vis (set_a v (Some (with_xs a xs')) st)) (xs' ++ R) /\
            Permutation (vis (set_a v None st)) R.
Proof.
  intros Hg. exists (vis (set_nth v None None st)). rewrite get_a_nth in Hg. split; [|split].
  - rewrite (vis_get st v), Hg. reflexivity.
  - unfold set_a. rewrite vis_set_nth. reflexivity.
  - unfold set_a. reflexivity.
Qed.

(** ** Multiset reasoning by counting *)
Definition cnt (x : N) (l : list N) : nat := count_occ N.eq_dec l x.
Lemma perm_cnt l l' : Permutation l l' <-> forall x, cnt x l = cnt x l'.
Proof. apply Permutation_count_occ. Qed.
Lemma cnt_app x l l' : cnt x (l ++ l') = (cnt x l + cnt x l')%nat.
Proof. apply count_occ_app. Qed.
Lemma cnt_cons x y l : cnt x (y :: l) = ((if N.eq_dec y x then 1 else 0) + cnt x l)%nat.
Proof. unfold cnt. cbn [count_occ]. destruct (N.eq_dec y x); reflexivity. Qed.
Lemma cnt_nil x : cnt x [] = 0%nat.
Proof. reflexivity. Qed.
Lemma cnt_rev x l : cnt x (rev l) = cnt x l.
Proof. apply count_occ_rev. Qed.

(** turn every [Permutation] hypothesis into its counting form at [x], then it is arithmetic *)
Ltac count_at x :=
  repeat match goal with
  | H : Permutation _ _ |- _ => rewrite perm_cnt in H; specialize (H x)
  end;
  rewrite ?cnt_app, ?cnt_cons, ?cnt_nil in *.
Ltac perm_count := apply perm_cnt; let x := fresh "x" in intros x; count_at x; try lia.

Lemma drops_drop_ev c t : c_dg c = true -> drops (drop_ev c t) = [t].
Proof. intros H. unfold drop_ev. rewrite H. reflexivity. Qed.
Lemma drops_map l : drops (map EDrop l) = l.
Proof. induction l as [|x l IH]; [reflexivity|]. cbn. f_equal. exact IH. Qed.

Lemma put_value_perm c a idx t xs' : put_value c a idx t = inl xs' -> Permutation (t :: a_xs a) xs'.
Proof.
  unfold put_value. destruct idx as [i|].
  - destruct (N.of_nat (length (a_xs a)) <? i); [discriminate|]. destruct (full c a); [discriminate|].
    intros H. injection H as <-. apply sp_insert_perm.
  - destruct (full c a); [discriminate|]. intros H. injection H as <-. apply sp_push_perm.
Qed.

Lemma take_result_perm k i xs :
  (i < length xs)%nat -> (k = TPop -> i = (length xs - 1)%nat) ->
  Permutation xs (nth i xs 0 :: take_result k i xs).
Proof.
  intros Hi Hp. destruct k; cbn [take_result].
  - rewrite (Hp eq_refl). assert (Hx : xs <> []) by (destruct xs; [cbn in Hi; lia|discriminate]).
    assert (El : nth (length xs - 1) xs 0 = last xs 0).
    { clear -Hx. induction xs as [|x xs IH]; [congruence|]. destruct xs as [|y xs]; [reflexivity|].
      change (last (x :: y :: xs) 0) with (last (y :: xs) 0). rewrite <- IH by discriminate.
      cbn [length]. replace (S (S (length xs)) - 1)%nat with (S (length (y :: xs) - 1)) by (cbn [length]; lia).
      reflexivity. }
    rewrite El. rewrite (app_removelast_last 0 Hx) at 1. rewrite Permutation_app_comm. reflexivity.
  - apply sp_remove_perm. exact Hi.
  - apply sp_swap_remove_perm. exact Hi.
Qed.

(** ** One step preserves the accounting *)

(** ** steps with an armed fuse: what a panicking destructor leaks *)
Definition take_drop_leak (c : cfg) (st : astate) (v : nat) (tk : tkind) (idx : N) (k : N) : list N :=
  match get_a v st with
  | Some a =>
      let xs := a_xs a in
      let i := match tk with TPop => (length xs - 1)%nat | _ => N.to_nat idx end in
      let exists_ := match tk with TPop => negb (length xs =? 0)%nat | _ => idx <? N.of_nat (length xs) end in
      if c_dg c && (k =? 0) && exists_ then skipn (S i) xs else []
  | None => []
  end.
Definition leak_of_f (c : cfg) (st : astate) (nx : N) (fuse : option N) (o : op) : list N :=
  match fuse with
  | None => leak_of c st nx o
  | Some k =>
      match o with
      | OClear _ v | ODropVec v =>
          match get_a v st with
          | Some a => if c_dg c && (k <? N.of_nat (length (a_xs a))) then skipn (S (N.to_nat k)) (a_xs a) else []
          | None => []
          end
      | ODrain a v sb eb [] FinDrop =>
          match get_a v st with
          | Some av =>
              let xs := a_xs av in
              match range_of_bounds usize_max (N.of_nat (length xs)) (to_sb sb) (to_sb eb) with
              | Some (s, e) =>
                  let s := N.to_nat s in let e := N.to_nat e in
                  let range := firstn (e - s) (skipn s xs) in
                  if c_dg c && (k <? N.of_nat (e - s))
                  then (match a with Erased => skipn (S (N.to_nat k)) range | Typed => [] end) ++ skipn e xs
                  else []
              | None => []
              end
          | None => []
          end
      | OSplice a v sb eb [] FinDrop _ n _ _ =>
          match get_a v st with
          | Some av =>
              let xs := a_xs av in
              match range_of_bounds usize_max (N.of_nat (length xs)) (to_sb sb) (to_sb eb) with
              | Some (s, e) =>
                  let s := N.to_nat s in let e := N.to_nat e in
                  let range := firstn (e - s) (skipn s xs) in
                  let m := if c_dg c then N.of_nat (e - s) else 0 in
                  if c_dg c && (k <? N.of_nat (e - s))
                  then (match a with Erased => skipn (S (N.to_nat k)) range | Typed => [] end) ++ skipn e xs
                  else if k - m <? n then firstn (N.to_nat (k - m)) (next_ids c nx (N.to_nat n)) ++ skipn e xs
                  else []
              | None => []
              end
          | None => []
          end
      | OPop _ v KDrop => take_drop_leak c st v TPop 0 k
      | ORemove _ v idx KDrop => take_drop_leak c st v TRemove idx k
      | OSwapRemove _ v idx KDrop => take_drop_leak c st v TSwapRemove idx k
      (* the clones made before the panicking one: the half-built clone is dropped with length 0 *)
      | OClone v _ => next_ids c nx (N.to_nat k)
      (* an insert whose lazy clone panicked has hidden the tail behind the insertion point: it is leaked *)
      | OInsert Erased v idx (SLazy _ src sidx) =>
          match sp_offer_lazy_f c st nx v (Some idx) src sidx, get_a v st with
          | Some r, Some a => if s_pk r =? 8 then skipn (N.to_nat idx) (a_xs a) else []
          | _, _ => []
          end
      | OInsert Erased v idx (SLazyUser _) =>
          match sp_offer_userlazy_f c st nx v (Some idx), get_a v st with
          | Some r, Some a => if s_pk r =? 8 then skipn (N.to_nat idx) (a_xs a) else []
          | _, _ => []
          end
      | _ => []
      end
  end.

Section StepOwn.
Variable c : cfg.
Hypothesis Hdg : c_dg c = true.

Lemma vis_set_any st v oa :
  Permutation (vis (set_a v oa st)) (slot_xs oa ++ vis (set_a v None st)).
Proof. unfold set_a. apply vis_set_nth. Qed.
Lemma vis_get_any st v :
  Permutation (vis st) (slot_xs (get_a v st) ++ vis (set_a v None st)).
Proof. rewrite get_a_nth. unfold set_a. apply vis_get. Qed.

Lemma offer_own st nx v idx r D L :
  1 <= nx -> sp_offer c st nx v idx = Some r ->
  Permutation (created c nx) (vis st ++ D ++ L) ->
  Permutation (created c (s_nx r)) (vis (s_st r) ++ (D ++ drops (s_evs r)) ++ L).
Proof.
  intros Hnx Hr Hinv. unfold sp_offer in Hr.
  destruct (get_a v st) as [a|] eqn:Hg; [|discriminate].
  destruct (put_value c a idx (tok c nx)) as [xs'|p] eqn:Hp; injection Hr as <-;
    cbn [ok_res panic_res s_nx s_st s_evs]; rewrite (created_succ c nx Hnx).
  - pose proof (put_value_perm c a idx _ _ Hp) as Hperm.
    pose proof (vis_set_any st v (Some (with_xs a xs'))) as H1. cbn [slot_xs with_xs a_xs] in H1.
    pose proof (vis_get_any st v) as H2. rewrite Hg in H2. cbn [slot_xs] in H2.
    cbn [drops flat_map]. perm_count.
  - rewrite (drops_drop_ev c _ Hdg). perm_count.
Qed.

Lemma take_elem_own st nx v a k i sk r D L :
  get_a v st = Some a -> (i < length (a_xs a))%nat -> (k = TPop -> i = (length (a_xs a) - 1)%nat) ->
  sp_take_elem c st nx v a k i sk = Some r ->
  Permutation (created c nx) (vis st ++ D ++ L) ->
  Permutation (created c (s_nx r))
    (vis (s_st r) ++ (D ++ drops (s_evs r)) ++ (L ++ match sk with KForget => skipn i (a_xs a) | _ => [] end)).
Proof.
  intros Hg Hi Hp Hr Hinv. unfold sp_take_elem in Hr. cbv zeta in Hr.
  set (xs := a_xs a) in *. set (t := nth i xs 0) in *. set (rest := take_result k i xs) in *.
  pose proof (take_result_perm k i xs Hi Hp) as Hperm. fold t rest in Hperm.
  pose proof (vis_get_any st v) as Hvis. rewrite Hg in Hvis. cbn [slot_xs] in Hvis. fold xs in Hvis.
  pose proof (vis_set_any st v (Some (with_xs a rest))) as H1. cbn [slot_xs with_xs a_xs] in H1.
  destruct sk as [| |d|d j| |k0|n0 d0 k0|n0 k0|]; try discriminate.
  - injection Hr as <-. cbn [ok_res s_nx s_st s_evs]. rewrite (drops_drop_ev c _ Hdg). perm_count.
  - injection Hr as <-. cbn [ok_res s_nx s_st s_evs]. rewrite (drops_drop_ev c _ Hdg). perm_count.
  - destruct (Nat.eqb_spec d v) as [|Hne]; [discriminate|].
    destruct (get_a d st) as [b|] eqn:Hgb; [|discriminate].
    set (st1 := set_a v (Some (with_xs a rest)) st) in *.
    assert (Hgb1 : get_a d st1 = Some b).
    { unfold st1, get_a, set_a. rewrite <- Hgb. unfold get_a.
      clear -Hne. revert d st Hne. induction v as [|v IH]; intros d st Hne.
      - destruct d; [congruence|]. destruct st; cbn [set_nth nth_error]; [destruct d|]; reflexivity.
      - destruct d as [|d]; destruct st as [|y st]; cbn [set_nth nth_error]; try reflexivity.
        + rewrite (IH d [] ltac:(lia)). destruct d; reflexivity.
        + apply IH. lia. }
    pose proof (vis_get_any st1 d) as Hv1. rewrite Hgb1 in Hv1. cbn [slot_xs] in Hv1.
    destruct (put_value c b None t) as [ys'|p] eqn:Hpv; injection Hr as <-; cbn [ok_res panic_res s_nx s_st s_evs].
    + pose proof (put_value_perm c b None t ys' Hpv) as Hpp.
      pose proof (vis_set_any st1 d (Some (with_xs b ys'))) as H2. cbn [slot_xs with_xs a_xs] in H2.
      cbn [drops flat_map]. perm_count.
    + rewrite (drops_drop_ev c _ Hdg). perm_count.
  - destruct (Nat.eqb_spec d v) as [|Hne]; [discriminate|].
    destruct (get_a d st) as [b|] eqn:Hgb; [|discriminate].
    set (st1 := set_a v (Some (with_xs a rest)) st) in *.
    assert (Hgb1 : get_a d st1 = Some b).
    { unfold st1, get_a, set_a. rewrite <- Hgb. unfold get_a.
      clear -Hne. revert d st Hne. induction v as [|v IH]; intros d st Hne.
      - destruct d; [congruence|]. destruct st; cbn [set_nth nth_error]; [destruct d|]; reflexivity.
      - destruct d as [|d]; destruct st as [|y st]; cbn [set_nth nth_error]; try reflexivity.
        + rewrite (IH d [] ltac:(lia)). destruct d; reflexivity.
        + apply IH. lia. }
    pose proof (vis_get_any st1 d) as Hv1. rewrite Hgb1 in Hv1. cbn [slot_xs] in Hv1.
    destruct (put_value c b (Some j) t) as [ys'|p] eqn:Hpv; injection Hr as <-; cbn [ok_res panic_res s_nx s_st s_evs].
    + pose proof (put_value_perm c b (Some j) t ys' Hpv) as Hpp.
      pose proof (vis_set_any st1 d (Some (with_xs b ys'))) as H2. cbn [slot_xs with_xs a_xs] in H2.
      cbn [drops flat_map]. perm_count.
    + rewrite (drops_drop_ev c _ Hdg). perm_count.
  - injection Hr as <-. cbn [ok_res s_nx s_st s_evs drops flat_map].
    pose proof (vis_set_any st v (Some (with_xs a (firstn i xs)))) as H2. cbn [slot_xs with_xs a_xs] in H2.
    assert (Hsplit : Permutation xs (firstn i xs ++ skipn i xs)) by (rewrite firstn_skipn; reflexivity).
    perm_count.
Qed.

Lemma drops_app a b : drops (a ++ b) = drops a ++ drops b.
Proof. unfold drops. apply flat_map_app. Qed.
Lemma drops_lazy t ids : drops (flat_map (fun id => EClone t id :: drop_ev c id) ids) = ids.
Proof.
  induction ids as [|x l IH]; [reflexivity|]. cbn [flat_map]. unfold drops in *. cbn [flat_map app].
  rewrite flat_map_app, IH. unfold drop_ev. rewrite Hdg. reflexivity.
Qed.
Lemma sp_upd_perm' (xs : list N) i t : (i < length xs)%nat -> Permutation (nth i xs 0 :: sp_upd i t xs) (t :: xs).
Proof.
  intros Hi. unfold sp_upd.
  pose proof (firstn_skipn i xs) as E. rewrite (skipn_nth_cons 0 xs i Hi) in E.
  apply perm_cnt. intros x. apply (f_equal (cnt x)) in E.
  rewrite cnt_app, cnt_cons in E. rewrite !cnt_cons, cnt_app, cnt_cons. lia.
Qed.
Lemma sp_upd_len (xs : list N) i t : (i < length xs)%nat -> length (sp_upd i t xs) = length xs.
Proof.
  intros Hi. unfold sp_upd. rewrite app_length. cbn [length]. rewrite firstn_length, skipn_length. lia.
Qed.

(** the lazy clones pushed into another vector: new values, all of them in that vector, nothing destroyed *)
Lemma lazy_pushes_own t : forall n b nx b' evs nx' ok, 1 <= nx ->
  sp_lazy_pushes c b t nx n = (b', evs, nx', ok) ->
  exists ids, a_xs b' = a_xs b ++ ids /\ created c nx' = created c nx ++ ids /\ drops evs = [] /\ nx <= nx'.
Proof.
  induction n as [|n IH]; intros b nx b' evs nx' ok Hnx H; cbn [sp_lazy_pushes] in H.
  - injection H as Hb He Hn Ho. subst. exists []. rewrite !app_nil_r. split; [reflexivity|]. split; [reflexivity|]. split; [reflexivity|lia].
  - destruct (full c b).
    + injection H as Hb He Hn Ho. subst. exists []. rewrite !app_nil_r. split; [reflexivity|]. split; [reflexivity|]. split; [reflexivity|lia].
    + destruct (sp_lazy_pushes c (with_xs b (sp_push (tok c nx) (a_xs b))) t (nx + 1) n) as [[[b1 e1] n1] o1] eqn:E.
      injection H as Hb He Hn Ho. assert (Hnx1 : 1 <= nx + 1) by lia.
      destruct (IH _ _ _ _ _ _ Hnx1 E) as (ids & H1 & H2 & H3 & H4). subst b' evs nx'.
      cbn [with_xs a_xs] in H1. unfold sp_push in H1.
      exists (tok c nx :: ids). split; [rewrite H1, <- app_assoc; reflexivity|]. split.
      * rewrite H2, (created_succ c nx Hnx), <- app_assoc. reflexivity.
      * split; [exact H3|lia].
Qed.

Lemma sink_own : forall sk st nx v a k i r D L,
  get_a v st = Some a -> (i < length (a_xs a))%nat -> (k = TPop -> i = (length (a_xs a) - 1)%nat) -> 1 <= nx ->
  sp_sink c st nx v a k i sk = Some r ->
  Permutation (created c nx) (vis st ++ D ++ L) ->
  Permutation (created c (s_nx r))
    (vis (s_st r) ++ (D ++ drops (s_evs r)) ++ (L ++ sink_leak c st nx v a i sk)).
Proof.
  induction sk as [| |d|d j| |sk' IH|n0 d0 sk' IH|n0 sk' IH|]; intros st nx v a k i r D L Hg Hi Hp Hnx Hr Hinv;
    cbn [sp_sink] in Hr;
    try (exact (take_elem_own st nx v a k i _ r D L Hg Hi Hp Hr Hinv)).
  - (* KMut *)
    cbv zeta in Hr. cbn [sink_leak].
    set (xs := a_xs a) in *. set (t := nth i xs 0) in *. set (n := tok c nx) in *.
    set (a' := with_xs a (sp_upd i n xs)) in *. set (st' := set_a v (Some a') st) in *.
    destruct (sp_sink c st' (nx + 1) v a' k i sk') as [r'|] eqn:Er'; [|discriminate]. injection Hr as <-.
    cbn [s_nx s_st s_evs].
    assert (Hinv' : Permutation (created c (nx + 1)) (vis st' ++ (D ++ [t]) ++ L)).
    { rewrite (created_succ c nx Hnx).
      pose proof (vis_get_any st v) as Hv. rewrite Hg in Hv. cbn [slot_xs] in Hv. fold xs in Hv.
      pose proof (vis_set_any st v (Some a')) as H1. fold st' in H1. unfold a' in H1. cbn [slot_xs with_xs a_xs] in H1.
      pose proof (sp_upd_perm' xs i n Hi) as H2. fold t in H2. fold n. perm_count. }
    assert (Hg' : get_a v st' = Some a').
    { unfold st', get_a, set_a. clear. revert st. induction v as [|v IHv]; intros st; destruct st; cbn [set_nth nth_error]; auto. }
    assert (Hi' : (i < length (a_xs a'))%nat) by (cbn [a' with_xs a_xs]; rewrite sp_upd_len by exact Hi; exact Hi).
    assert (Hp' : k = TPop -> i = (length (a_xs a') - 1)%nat) by (cbn [a' with_xs a_xs]; rewrite sp_upd_len by exact Hi; exact Hp).
    pose proof (IH st' (nx + 1) v a' k i r' (D ++ [t]) L Hg' Hi' Hp' ltac:(lia) Er' Hinv') as H.
    cbn [a' with_xs a_xs] in H. rewrite drops_app. rewrite (drops_drop_ev c t Hdg). perm_count.
  - (* KLazy *)
    cbn [sink_leak].
    destruct (Nat.eqb_spec d0 v) as [|Hne]; [discriminate|].
    destruct (get_a d0 st) as [b|] eqn:Hgb; [|discriminate].
    set (t := nth i (a_xs a) 0) in *.
    destruct (sp_lazy_pushes c b t nx (N.to_nat n0)) as [[[b' evs] nx'] ok] eqn:Esp.
    destruct (lazy_pushes_own t _ _ _ _ _ _ _ Hnx Esp) as (ids & Hxs & Hcr & Hdr & Hge).
    set (st1 := set_a d0 (Some b') st) in *.
    assert (Hg1 : get_a v st1 = Some a).
    { unfold st1. rewrite WorldCore.get_a_slot. unfold set_a. rewrite WorldCore.slot_set_nth.
      destruct (Nat.eqb_spec v d0); [congruence|]. rewrite <- WorldCore.get_a_slot. exact Hg. }
    assert (Hinv1 : Permutation (created c nx') (vis st1 ++ D ++ L)).
    { rewrite Hcr.
      pose proof (vis_get_any st d0) as Hv. rewrite Hgb in Hv. cbn [slot_xs] in Hv.
      pose proof (vis_set_any st d0 (Some b')) as H1. fold st1 in H1. cbn [slot_xs] in H1. rewrite Hxs in H1. perm_count. }
    destruct ok.
    + destruct (sp_sink c st1 nx' v a k i sk') as [r'|] eqn:Er'; [|discriminate]. injection Hr as <-.
      cbn [s_nx s_st s_evs]. rewrite drops_app, Hdr. cbn [app].
      exact (IH st1 nx' v a k i r' D L Hg1 Hi Hp ltac:(lia) Er' Hinv1).
    + injection Hr as <-. cbn [panic_res s_nx s_st s_evs]. rewrite drops_app, Hdr. cbn [app].
      pose proof (take_elem_own st1 nx' v a k i KDrop _ D L Hg1 Hi Hp eq_refl Hinv1) as H.
      cbn [ok_res s_nx s_st s_evs] in H. exact H.
  - (* KLazyDown *)
    cbv zeta in Hr. cbn [sink_leak].
    set (ids := next_ids c nx (N.to_nat n0)) in *.
    destruct (sp_sink c st (nx + n0) v a k i sk') as [r'|] eqn:Er'; [|discriminate]. injection Hr as <-.
    cbn [s_nx s_st s_evs].
    assert (Hinv' : Permutation (created c (nx + n0)) (vis st ++ (D ++ ids) ++ L)).
    { replace (nx + n0) with (nx + N.of_nat (N.to_nat n0)) by lia. rewrite (created_add c nx _ Hnx). fold ids. perm_count. }
    pose proof (IH st (nx + n0) v a k i r' (D ++ ids) L Hg Hi Hp ltac:(lia) Er' Hinv') as H.
    rewrite drops_app, drops_lazy. perm_count.
Qed.

Lemma take_own st nx v k idx sk r D L :
  (k = TPop -> idx = 0) -> 1 <= nx ->
  sp_take c st nx v k idx sk = Some r ->
  Permutation (created c nx) (vis st ++ D ++ L) ->
  Permutation (created c (s_nx r))
    (vis (s_st r) ++ (D ++ drops (s_evs r)) ++
     (L ++ match get_a v st with
           | Some a =>
               match k with
               | TPop => if (length (a_xs a) =? 0)%nat then [] else sink_leak c st nx v a (length (a_xs a) - 1) sk
               | _ => if idx <? N.of_nat (length (a_xs a)) then sink_leak c st nx v a (N.to_nat idx) sk else []
               end
           | None => []
           end)).
Proof.
  intros Hpop Hnx Hr Hinv. unfold sp_take in Hr.
  destruct (get_a v st) as [a|] eqn:Hg; [|discriminate]. cbv zeta in Hr.
  set (xs := a_xs a) in *.
  assert (Hnone : forall r0, (r0 = none_res st nx \/ r0 = panic_res PIndex [] st nx) ->
                  Permutation (created c (s_nx r0)) (vis (s_st r0) ++ (D ++ drops (s_evs r0)) ++ (L ++ []))).
  { intros r0 [-> | ->]; cbn [none_res panic_res s_nx s_st s_evs drops flat_map]; perm_count. }
  destruct k.
  - destruct (Nat.eqb_spec (length xs) 0) as [Hz|Hnz].
    + apply Hnone. left. congruence.
    + exact (sink_own sk st nx v a TPop (length xs - 1) r D L Hg ltac:(unfold xs in *; lia) (fun _ => eq_refl) Hnx Hr Hinv).
  - destruct (N.ltb_spec idx (N.of_nat (length xs))) as [Hlt|Hge].
    + exact (sink_own sk st nx v a TRemove (N.to_nat idx) r D L Hg ltac:(unfold xs in *; lia) ltac:(discriminate) Hnx Hr Hinv).
    + apply Hnone. right. congruence.
  - destruct (N.ltb_spec idx (N.of_nat (length xs))) as [Hlt|Hge].
    + exact (sink_own sk st nx v a TSwapRemove (N.to_nat idx) r D L Hg ltac:(unfold xs in *; lia) ltac:(discriminate) Hnx Hr Hinv).
    + apply Hnone. right. congruence.
Qed.

Lemma capacity_own st nx v want exact r D L :
  sp_capacity c st nx v want exact = Some r ->
  Permutation (created c nx) (vis st ++ D ++ L) ->
  Permutation (created c (s_nx r)) (vis (s_st r) ++ (D ++ drops (s_evs r)) ++ (L ++ [])).
Proof.
  intros Hr Hinv. unfold sp_capacity in Hr. cbv zeta in Hr.
  repeat match type of Hr with
  | Some _ = Some _ => injection Hr as <-
  | None = Some _ => discriminate Hr
  | context [match ?x with _ => _ end] => destruct x eqn:?
  | context [if ?x then _ else _] => destruct x eqn:?
  end; cbn [ok_res panic_res s_nx s_st s_evs drops flat_map]; perm_count.
Qed.

(** the values a walk hands out plus those it leaves un-yielded are the cursor's range *)
Lemma sp_walk_perm xs : forall pat i j rets ds i' j',
  (i <= j)%nat -> (j <= length xs)%nat ->
  sp_walk xs pat i j = Some (rets, ds, i', j') ->
  Permutation (ds ++ firstn (j' - i') (skipn i' xs)) (firstn (j - i) (skipn i xs)) /\ (i <= i')%nat /\ (i' <= j')%nat /\ (j' <= j)%nat.
Proof.
  induction pat as [|[front sk] pat IH]; intros i j rets ds i' j' Hij Hj Hs; cbn [sp_walk] in Hs.
  - injection Hs as <- <- <- <-. cbn [app]. split; [reflexivity|lia].
  - destruct (Nat.eqb_spec i j) as [Heq|Hne].
    + destruct (sp_walk xs pat i j) as [[[[r0 d0] i0] j0]|] eqn:E; [|discriminate].
      injection Hs as <- <- <- <-. apply (IH i j r0 d0 i0 j0 Hij Hj E).
    + set (idx := if front then i else (j - 1)%nat) in *.
      set (i1 := if front then S i else i) in *. set (j1 := if front then j else (j - 1)%nat) in *.
      destruct (match sk with KDrop | KSkip => Some [] | KDown => Some [nth idx xs 0] | _ => None end) as [out|]; [|discriminate].
      destruct (sp_walk xs pat i1 j1) as [[[[r0 d0] i0] j0]|] eqn:E; [|discriminate].
      injection Hs as <- <- <- <-.
      assert (H1 : (i1 <= j1)%nat /\ (j1 <= length xs)%nat) by (unfold i1, j1; destruct front; lia).
      destruct (IH i1 j1 r0 d0 i0 j0 (proj1 H1) (proj2 H1) E) as (Hp & Hb).
      split; [|unfold i1, j1 in Hb; destruct front; lia].
      cbn [app]. unfold idx, i1, j1 in *. destruct front.
      * (* front: range = xs[i] :: range(i+1, j) *)
        rewrite Hp. replace (j - i)%nat with (S (j - S i)) by lia.
        rewrite (skipn_nth_cons 0 xs i) by lia. cbn [firstn]. reflexivity.
      * (* back: range = range(i, j-1) ++ [xs[j-1]] *)
        rewrite Hp. replace (j - i)%nat with ((j - 1 - i) + 1)%nat by lia.
        rewrite <- (firstn_skipn (j - 1 - i) (firstn (j - 1 - i + 1) (skipn i xs))).
        rewrite firstn_firstn. replace (Nat.min (j - 1 - i) (j - 1 - i + 1)) with (j - 1 - i)%nat by lia.
        assert (Hl : skipn (j - 1 - i) (firstn (j - 1 - i + 1) (skipn i xs)) = [nth (j - 1) xs 0]).
        { rewrite skipn_firstn_comm. replace (j - 1 - i + 1 - (j - 1 - i))%nat with 1%nat by lia.
          rewrite skipn_skipn_add. replace (i + (j - 1 - i))%nat with (j - 1)%nat by lia.
          rewrite (skipn_nth_cons 0 xs (j - 1)) by lia. reflexivity. }
        rewrite Hl. apply Permutation_cons_append.
Qed.

Lemma drops_yielded ds : drops (flat_map (drop_ev c) ds) = ds.
Proof.
  induction ds as [|t ds IH]; [reflexivity|]. cbn [flat_map]. unfold drops in *. rewrite flat_map_app, IH.
  unfold drop_ev. rewrite Hdg. reflexivity.
Qed.

Lemma drain_own st nx v sb eb pat f r D L :
  sp_drain c st nx v sb eb pat f = Some r ->
  Permutation (created c nx) (vis st ++ D ++ L) ->
  Permutation (created c (s_nx r))
    (vis (s_st r) ++ (D ++ drops (s_evs r)) ++ (L ++ leak_of c st nx (ODrain Erased v sb eb pat f))).
Proof.
  intros Hr Hinv. unfold sp_drain in Hr. cbn [leak_of].
  destruct (get_a v st) as [a|] eqn:Hg; [|discriminate]. cbv zeta in Hr.
  set (xs := a_xs a) in *.
  pose proof (vis_get_any st v) as Hvis. rewrite Hg in Hvis. cbn [slot_xs] in Hvis. fold xs in Hvis.
  destruct (range_of_bounds usize_max (N.of_nat (length xs)) (to_sb sb) (to_sb eb)) as [[sN eN]|] eqn:Erb.
  - assert (Hb : sN <= eN /\ eN <= N.of_nat (length xs)).
    { unfold range_of_bounds in Erb.
      repeat match type of Erb with
      | context [match ?x with _ => _ end] => destruct x eqn:?; try discriminate
      | context [if ?x then _ else _] => destruct x eqn:?; try discriminate
      end.
      injection Erb as <- <-. match goal with H : (_ && _)%bool = true |- _ => apply andb_prop in H; destruct H as [H1 H2] end.
      apply N.leb_le in H1, H2. lia. }
    set (s := N.to_nat sN) in *. set (e := N.to_nat eN) in *.
    assert (Hse : (s <= e)%nat) by lia. assert (Hel : (e <= length xs)%nat) by lia.
    destruct (sp_walk xs pat s e) as [[[[rets ds] i] j]|] eqn:Ew; [|discriminate].
    destruct (sp_walk_perm xs pat s e rets ds i j Hse Hel Ew) as (Hp & Hb1 & Hb2 & Hb3).
    pose proof (sp_drain_perm xs s e Hse Hel) as Hd. unfold sp_drained in Hd.
    destruct f; injection Hr as <-; cbn [ok_res s_nx s_st s_evs]; cbv beta iota.
    + pose proof (vis_set_any st v (Some (with_xs a (VecSpec.sp_drain s e xs)))) as H1. cbn [slot_xs with_xs a_xs] in H1.
      rewrite drops_app, drops_yielded, Hdg, drops_map. perm_count.
    + pose proof (vis_set_any st v (Some (with_xs a (firstn s xs)))) as H1. cbn [slot_xs with_xs a_xs] in H1.
      rewrite drops_yielded.
      assert (Hx : Permutation xs (firstn s xs ++ firstn (e - s) (skipn s xs) ++ skipn e xs)).
      { rewrite <- (firstn_skipn s xs) at 1. apply Permutation_app_head.
        rewrite (skipn_split_range xs s e Hse) at 1. reflexivity. }
      perm_count.
  - injection Hr as <-. cbn [panic_res s_nx s_st s_evs drops flat_map].
    destruct f; perm_count.
Qed.

Lemma nth_set_nth_other {A} (d : A) : forall v m x l, m <> v -> nth m (set_nth v x d l) d = nth m l d.
Proof.
  induction v as [|v IH]; intros m x l Hne.
  - destruct l as [|y l]; destruct m as [|m]; cbn [set_nth nth]; try contradiction; try reflexivity. destruct m; reflexivity.
  - destruct l as [|y l]; destruct m as [|m]; cbn [set_nth nth]; try reflexivity.
    + rewrite IH by lia. destruct m; reflexivity.
    + apply IH. lia.
Qed.
Lemma get_a_set_other' v m oa st : m <> v -> get_a m (set_a v oa st) = get_a m st.
Proof. intros Hne. rewrite !get_a_nth. unfold set_a. apply nth_set_nth_other. exact Hne. Qed.
Lemma get_a_set_same' v oa st : get_a v (set_a v oa st) = oa.
Proof.
  rewrite get_a_nth. unfold set_a. revert st. induction v as [|v IH]; intros st; destruct st as [|y st]; cbn [set_nth nth]; auto.
Qed.

(** one item of a moving walk: the value - and every lazy clone made of it - ends up in exactly one place *)
Ltac perm_count2 := perm_count; rewrite ?cnt_app, ?cnt_cons, ?cnt_nil in *; lia.

Lemma sp_item_perm v : forall sk st nx t, 1 <= nx ->
  match sp_item c v st nx t sk with
  | Some (inl (out, evs0, st1, lost0, nx1)) =>
      exists news, created c nx1 = created c nx ++ news /\
        Permutation (t :: vis st ++ news) (vis st1 ++ drops evs0 ++ lost0) /\ get_a v st1 = get_a v st /\ nx <= nx1
  | Some (inr (p, evs0, st1, nx1)) =>
      exists news, created c nx1 = created c nx ++ news /\
        Permutation (t :: vis st ++ news) (vis st1 ++ drops evs0) /\ get_a v st1 = get_a v st /\ nx <= nx1
  | None => True
  end.
Proof.
  induction sk as [| |dst|dst j| |sk' IH|n0 dst sk' IH|n0 sk' IH|]; intros st nx t Hnx; cbn [sp_item]; try exact I;
    pose proof (drops_drop_ev c t Hdg) as Hd;
    try (exists []; rewrite !app_nil_r; split; [reflexivity|]; split; [rewrite ?Hd; cbn [drops flat_map app]; perm_count2|]; split; [reflexivity|lia]).
  - destruct (Nat.eqb_spec dst v) as [|Hne]; [exact I|].
    destruct (get_a dst st) as [b|] eqn:Hgb; [|exact I].
    destruct (put_value c b None t) as [ys'|p] eqn:Epv.
    + exists []. rewrite !app_nil_r. split; [reflexivity|]. split; [|split; [apply get_a_set_other'; intros X; apply Hne; symmetry; exact X|lia]].
      destruct (vis_replace st dst b ys' Hgb) as (R & H1 & H2 & _).
      pose proof (put_value_perm c b None t ys' Epv) as H3. cbn [drops flat_map app]. perm_count2.
    + exists []. rewrite !app_nil_r. split; [reflexivity|]. split; [rewrite Hd; perm_count2|]. split; [reflexivity|lia].
  - destruct (Nat.eqb_spec dst v) as [|Hne]; [exact I|].
    destruct (get_a dst st) as [b|] eqn:Hgb; [|exact I].
    destruct (put_value c b (Some j) t) as [ys'|p] eqn:Epv.
    + exists []. rewrite !app_nil_r. split; [reflexivity|]. split; [|split; [apply get_a_set_other'; intros X; apply Hne; symmetry; exact X|lia]].
      destruct (vis_replace st dst b ys' Hgb) as (R & H1 & H2 & _).
      pose proof (put_value_perm c b (Some j) t ys' Epv) as H3. cbn [drops flat_map app]. perm_count2.
    + exists []. rewrite !app_nil_r. split; [reflexivity|]. split; [rewrite Hd; perm_count2|]. split; [reflexivity|lia].
  - (* KLazy *)
    destruct (Nat.eqb_spec dst v) as [|Hne]; [exact I|].
    destruct (get_a dst st) as [b|] eqn:Hgb; [|exact I].
    destruct (sp_lazy_pushes c b t nx (N.to_nat n0)) as [[[b' evs] nx'] ok] eqn:Esp.
    destruct (lazy_pushes_own t _ _ _ _ _ _ _ Hnx Esp) as (ids & Hb' & Hcr & Hdr & Hge).
    set (st1 := set_a dst (Some b') st) in *.
    assert (Hg1 : get_a v st1 = get_a v st) by (apply get_a_set_other'; intros X; apply Hne; symmetry; exact X).
    pose proof (vis_get_any st dst) as Hv. rewrite Hgb in Hv. cbn [slot_xs] in Hv.
    pose proof (vis_set_any st dst (Some b')) as H1. fold st1 in H1. cbn [slot_xs] in H1. rewrite Hb' in H1.
    destruct ok.
    + assert (Hnx' : 1 <= nx') by lia.
      specialize (IH st1 nx' t Hnx').
      destruct (sp_item c v st1 nx' t sk') as [[[[[[out evs2] st2] lost2] nx2]|[[[p evs2] st2] nx2]]|]; [| |exact I];
        destruct IH as (news & Hc2 & Hp2 & Hg2 & Hge2); exists (ids ++ news);
        (split; [rewrite Hc2, Hcr, app_assoc; reflexivity|]);
        (split; [rewrite drops_app, Hdr; cbn [app]; perm_count2|split; [congruence|lia]]).
    + exists ids. split; [exact Hcr|]. split; [rewrite drops_app, Hdr, Hd; cbn [app]; perm_count2|]. split; [exact Hg1|exact Hge].
  - (* KLazyDown *)
    assert (Hcr : created c (nx + n0) = created c nx ++ next_ids c nx (N.to_nat n0)).
    { replace (nx + n0) with (nx + N.of_nat (N.to_nat n0)) by lia. apply created_add. exact Hnx. }
    assert (Hnx' : 1 <= nx + n0) by lia.
    specialize (IH st (nx + n0) t Hnx').
    destruct (sp_item c v st (nx + n0) t sk') as [[[[[[out evs2] st2] lost2] nx2]|[[[p evs2] st2] nx2]]|]; [| |exact I];
      destruct IH as (news & Hc2 & Hp2 & Hg2 & Hge2); exists (next_ids c nx (N.to_nat n0) ++ news);
      (split; [rewrite Hc2, Hcr, app_assoc; reflexivity|]);
      (split; [rewrite drops_app, drops_lazy; perm_count2|split; [exact Hg2|lia]]).
Qed.

Definition wres_parts (r : wres) : list event * nat * nat * astate * list N * N :=
  match r with WDone _ evs i j st lost nx | WStop _ evs i j st lost nx => (evs, i, j, st, lost, nx) end.

Lemma range_step_front (xs : list N) i j : (i < j)%nat -> (j <= length xs)%nat ->
  firstn (j - i) (skipn i xs) = nth i xs 0 :: firstn (j - S i) (skipn (S i) xs).
Proof.
  intros Hij Hj. replace (j - i)%nat with (S (j - S i)) by lia.
  rewrite (skipn_nth_cons 0 xs i) by lia. reflexivity.
Qed.
Lemma range_step_back (xs : list N) i j : (i < j)%nat -> (j <= length xs)%nat ->
  Permutation (firstn (j - i) (skipn i xs)) (nth (j - 1) xs 0 :: firstn (j - 1 - i) (skipn i xs)).
Proof.
  intros Hij Hj. replace (j - i)%nat with ((j - 1 - i) + 1)%nat by lia.
  rewrite <- (firstn_skipn (j - 1 - i) (firstn (j - 1 - i + 1) (skipn i xs))).
  rewrite firstn_firstn. replace (Nat.min (j - 1 - i) (j - 1 - i + 1)) with (j - 1 - i)%nat by lia.
  assert (Hl : skipn (j - 1 - i) (firstn (j - 1 - i + 1) (skipn i xs)) = [nth (j - 1) xs 0]).
  { rewrite skipn_firstn_comm. replace (j - 1 - i + 1 - (j - 1 - i))%nat with 1%nat by lia.
    rewrite skipn_skipn_add. replace (i + (j - 1 - i))%nat with (j - 1)%nat by lia.
    rewrite (skipn_nth_cons 0 xs (j - 1)) by lia. reflexivity. }
  rewrite Hl. symmetry. apply Permutation_cons_append.
Qed.

(** a moving walk: every value of the cursor's range - and every clone made on the way - is destroyed, leaked, still
    un-yielded or in another vector *)
Lemma sp_walk_mv_perm v xs : forall pat i j st nx r,
  (i <= j)%nat -> (j <= length xs)%nat -> 1 <= nx ->
  sp_walk_mv c v xs pat i j st nx = Some r ->
  let '(evs, i', j', st', lost, nx') := wres_parts r in
  exists news, created c nx' = created c nx ++ news /\
  Permutation (vis st ++ firstn (j - i) (skipn i xs) ++ news) (vis st' ++ drops evs ++ lost ++ firstn (j' - i') (skipn i' xs)) /\
  (i <= i')%nat /\ (i' <= j')%nat /\ (j' <= j)%nat /\ get_a v st' = get_a v st /\ nx <= nx'.
Proof.
  induction pat as [|[front sk] pat IH]; intros i j st nx r Hij Hj Hnx Hs; cbn [sp_walk_mv] in Hs.
  - injection Hs as <-. cbn [wres_parts drops flat_map app]. exists []. rewrite !app_nil_r. split; [reflexivity|]. split; [reflexivity|]. repeat split; lia.
  - destruct (Nat.eqb_spec i j) as [Heq|Hne].
    + destruct (sp_walk_mv c v xs pat i j st nx) as [r0|] eqn:E; [|discriminate].
      specialize (IH i j st nx r0 Hij Hj Hnx E).
      destruct r0 as [rets0 evs0 i0 j0 st0 lost0 nx0|p0 evs0 i0 j0 st0 lost0 nx0]; injection Hs as <-; exact IH.
    + set (idx := if front then i else (j - 1)%nat) in *.
      set (i1 := if front then S i else i) in *. set (j1 := if front then j else (j - 1)%nat) in *.
      set (t := nth idx xs 0) in *.
      assert (Hrange : Permutation (firstn (j - i) (skipn i xs)) (t :: firstn (j1 - i1) (skipn i1 xs))).
      { unfold t, idx, i1, j1. destruct front.
        - rewrite (range_step_front xs i j) by lia. reflexivity.
        - apply range_step_back; lia. }
      pose proof (sp_item_perm v sk st nx t Hnx) as Hitem.
      destruct (sp_item c v st nx t sk) as [[[[[[out evs0] st1] lost0] nx1]|[[[p evs0] st1] nx1]]|]; [| |discriminate].
      * destruct Hitem as (news1 & Hc1 & Hp1 & Hg1 & Hge1).
        destruct (sp_walk_mv c v xs pat i1 j1 st1 nx1) as [r0|] eqn:E; [|discriminate].
        assert (H1 : (i1 <= j1)%nat /\ (j1 <= length xs)%nat) by (unfold i1, j1; destruct front; lia).
        assert (Hnx1 : 1 <= nx1) by lia.
        specialize (IH i1 j1 st1 nx1 r0 (proj1 H1) (proj2 H1) Hnx1 E).
        destruct r0 as [rets0 evs1 i0 j0 st0 lost1 nx0|p0 evs1 i0 j0 st0 lost1 nx0]; injection Hs as <-;
          cbn [wres_parts] in IH |- *; destruct IH as (news2 & Hc2 & Hp2 & Hb1 & Hb2 & Hb3 & Hg2 & Hge2);
          exists (news1 ++ news2);
          (split; [rewrite Hc2, Hc1, app_assoc; reflexivity|]);
          (split; [rewrite drops_app; perm_count2|]);
          (split; [unfold i1 in Hb1; destruct front; lia|]); (split; [exact Hb2|]);
          (split; [unfold j1 in Hb3; destruct front; lia|split; [congruence|lia]]).
      * destruct Hitem as (news1 & Hc1 & Hp1 & Hg1 & Hge1).
        injection Hs as <-. cbn [wres_parts app]. exists news1. split; [exact Hc1|]. split; [perm_count2|].
        unfold i1, j1. repeat split; try (destruct front; lia); exact Hg1.
Qed.

Lemma drain_mv_own st nx v sb eb pat f r D L :
  1 <= nx ->
  sp_drain c st nx v sb eb pat f = None ->
  sp_drain_mv c st nx v sb eb pat f = Some r ->
  Permutation (created c nx) (vis st ++ D ++ L) ->
  Permutation (created c (s_nx r))
    (vis (s_st r) ++ (D ++ drops (s_evs r)) ++ (L ++ leak_of c st nx (ODrain Erased v sb eb pat f))).
Proof.
  intros Hnx Hnone Hr Hinv. unfold sp_drain in Hnone. unfold sp_drain_mv in Hr. cbn [leak_of].
  destruct (get_a v st) as [a|] eqn:Hg; [|discriminate]. cbv zeta in Hr, Hnone.
  set (xs := a_xs a) in *.
  pose proof (vis_get_any st v) as Hvis. rewrite Hg in Hvis. cbn [slot_xs] in Hvis. fold xs in Hvis.
  destruct (range_of_bounds usize_max (N.of_nat (length xs)) (to_sb sb) (to_sb eb)) as [[sN eN]|] eqn:Erb; [|discriminate].
  assert (Hb : sN <= eN /\ eN <= N.of_nat (length xs)).
  { unfold range_of_bounds in Erb.
    repeat match type of Erb with
    | context [match ?x with _ => _ end] => destruct x eqn:?; try discriminate
    | context [if ?x then _ else _] => destruct x eqn:?; try discriminate
    end.
    injection Erb as <- <-. match goal with H : (_ && _)%bool = true |- _ => apply andb_prop in H; destruct H as [H1 H2] end.
    apply N.leb_le in H1, H2. lia. }
  set (s := N.to_nat sN) in *. set (e := N.to_nat eN) in *.
  assert (Hse : (s <= e)%nat) by lia. assert (Hel : (e <= length xs)%nat) by lia.
  destruct (sp_walk xs pat s e) as [[[[rets0 ds0] i0] j0]|] eqn:Ew; [destruct f; discriminate|]. clear Hnone.
  set (hidden := set_a v (Some (with_xs a (firstn s xs))) st) in *.
  destruct (sp_walk_mv c v xs pat s e hidden nx) as [wr|] eqn:Em; [|discriminate].
  pose proof (sp_walk_mv_perm v xs pat s e hidden nx wr Hse Hel Hnx Em) as Hw.
  pose proof (vis_set_any st v (Some (with_xs a (firstn s xs)))) as Hh. cbn [slot_xs with_xs a_xs] in Hh. fold hidden in Hh.
  pose proof (sp_drain_perm xs s e Hse Hel) as Hd. unfold sp_drained in Hd.
  assert (Hx : Permutation xs (firstn s xs ++ firstn (e - s) (skipn s xs) ++ skipn e xs)).
  { rewrite <- (firstn_skipn s xs) at 1. apply Permutation_app_head.
    rewrite (skipn_split_range xs s e Hse) at 1. reflexivity. }
  destruct wr as [rets evs i j st' lost nx'|p evs i j st' lost nx']; cbn [wres_parts] in Hw;
    destruct Hw as (news & Hcr & Hp & Hb1 & Hb2 & Hb3 & Hgv & Hge).
  - pose proof (vis_get_any st' v) as Hv'. rewrite Hgv in Hv'. unfold hidden in Hv'. rewrite get_a_set_same' in Hv'.
    cbn [slot_xs with_xs a_xs] in Hv'.
    destruct f; injection Hr as <-; cbn [ok_res s_nx s_st s_evs]; cbv beta iota; rewrite Hcr.
    + pose proof (vis_set_any st' v (Some (with_xs a (VecSpec.sp_drain s e xs)))) as H1. cbn [slot_xs with_xs a_xs] in H1.
      rewrite drops_app, Hdg, drops_map. perm_count2.
    + perm_count2.
  - pose proof (vis_get_any st' v) as Hv'. rewrite Hgv in Hv'. unfold hidden in Hv'. rewrite get_a_set_same' in Hv'.
    cbn [slot_xs with_xs a_xs] in Hv'.
    injection Hr as <-. cbn [panic_res s_nx s_st s_evs]. rewrite Hcr.
    pose proof (vis_set_any st' v (Some (with_xs a (VecSpec.sp_drain s e xs)))) as H1. cbn [slot_xs with_xs a_xs] in H1.
    rewrite drops_app, Hdg, drops_map. perm_count2.
Qed.

Lemma drops_nexts k : drops (repeat ENext k) = [].
Proof. induction k as [|k IH]; [reflexivity|exact IH]. Qed.

Lemma splice_own st nx v sb eb pat f rk n wa cl r D L :
  1 <= nx ->
  sp_splice c st nx v sb eb pat f rk n wa cl = Some r ->
  Permutation (created c nx) (vis st ++ D ++ L) ->
  Permutation (created c (s_nx r))
    (vis (s_st r) ++ (D ++ drops (s_evs r)) ++ (L ++ leak_of c st nx (OSplice Erased v sb eb pat f rk n wa cl))).
Proof.
  intros Hnx Hr0 Hinv.
  destruct (sp_splice_inv _ _ _ _ _ _ _ _ _ _ _ _ _ Hr0) as (Hrk & -> & Hr). clear Hr0.
  assert (Hil : (match rk, @None N with RLazy _, None => [] | _, _ => next_ids c nx (N.to_nat n) end) = next_ids c nx (N.to_nat n))
    by (destruct Hrk as [-> | ->]; reflexivity).
  assert (Hgd : (match rk, @None N with
          | RLazy src, None => match get_a src st with Some b => (0 <? n) && (length (a_xs b) =? 0)%nat | None => false end
          | _, _ => false
          end) = false) by (destruct Hrk as [-> | ->]; reflexivity).
  unfold sp_splice in Hr. cbn [leak_of]. rewrite Hil, Hgd. clear Hil Hgd Hrk.
  destruct (get_a v st) as [a|] eqn:Hg; [|discriminate]. cbv zeta in Hr.
  set (xs := a_xs a) in *.
  set (ts := next_ids c nx (N.to_nat n)) in *.
  assert (Hcr : created c (nx + n) = created c nx ++ ts).
  { replace (nx + n) with (nx + N.of_nat (N.to_nat n)) by lia. apply created_add. exact Hnx. }
  pose proof (vis_get_any st v) as Hvis. rewrite Hg in Hvis. cbn [slot_xs] in Hvis. fold xs in Hvis.
  destruct (range_of_bounds usize_max (N.of_nat (length xs)) (to_sb sb) (to_sb eb)) as [[sN eN]|] eqn:Erb.
  - assert (Hb : sN <= eN /\ eN <= N.of_nat (length xs)).
    { unfold range_of_bounds in Erb.
      repeat match type of Erb with
      | context [match ?x with _ => _ end] => destruct x eqn:?; try discriminate
      | context [if ?x then _ else _] => destruct x eqn:?; try discriminate
      end.
      injection Erb as <- <-. match goal with H : (_ && _)%bool = true |- _ => apply andb_prop in H; destruct H as [H1 H2] end.
      apply N.leb_le in H1, H2. lia. }
    set (s := N.to_nat sN) in *. set (e := N.to_nat eN) in *.
    assert (Hse : (s <= e)%nat) by lia. assert (Hel : (e <= length xs)%nat) by lia.
    destruct (sp_walk xs pat s e) as [[[[rets ds] i] j]|] eqn:Ew; [|discriminate].
    destruct (sp_walk_perm xs pat s e rets ds i j Hse Hel Ew) as (Hp & Hb1 & Hb2 & Hb3).
    assert (Hx : Permutation xs (firstn s xs ++ firstn (e - s) (skipn s xs) ++ skipn e xs)).
    { rewrite <- (firstn_skipn s xs) at 1. apply Permutation_app_head.
      rewrite (skipn_split_range xs s e Hse) at 1. reflexivity. }
    pose proof (vis_set_any st v (Some (with_xs a (firstn s xs)))) as H1. cbn [slot_xs with_xs a_xs] in H1.
    destruct f.
    + destruct (usize_max <? N.of_nat s + cl + N.of_nat (length xs - e)) eqn:Eov.
      * injection Hr as <-. cbn [panic_res s_nx s_st s_evs orb]. rewrite Hcr.
        rewrite drops_app, drops_yielded, Hdg, drops_map. perm_count.
      * destruct (match acap c (a_bk a) with Some cap => cap <? N.of_nat s + cl + N.of_nat (length xs - e) | None => false end) eqn:Ecap.
        -- injection Hr as <-. cbn [panic_res s_nx s_st s_evs orb]. rewrite Hcr.
           rewrite drops_app, drops_yielded, Hdg, drops_map. perm_count.
        -- injection Hr as <-. cbn [ok_res s_nx s_st s_evs orb]. rewrite Hcr.
           set (wr := Nat.min (N.to_nat cl) (N.to_nat n)) in *.
           pose proof (vis_set_any st v (Some (with_xs a (VecSpec.sp_splice s e (firstn wr ts) xs)))) as H2.
           cbn [slot_xs with_xs a_xs] in H2. unfold VecSpec.sp_splice in *.
           assert (Hts : Permutation ts (firstn wr ts ++ skipn wr ts)) by (rewrite firstn_skipn; reflexivity).
           rewrite !drops_app, drops_yielded, Hdg, !drops_map, drops_nexts. perm_count.
    + injection Hr as <-. cbn [ok_res s_nx s_st s_evs]. rewrite Hcr. rewrite drops_yielded. perm_count.
  - injection Hr as <-. cbn [panic_res s_nx s_st s_evs]. rewrite Hcr, Hdg, drops_map.
    destruct f; perm_count.
Qed.

Lemma lazy_fill_no_drops srcs : forall ids, drops (sp_lazy_fill_events srcs ids) = [].
Proof. induction srcs as [|t ts IH]; intros ids; destruct ids as [|x ids]; cbn [sp_lazy_fill_events]; try reflexivity. exact (IH ids). Qed.

Lemma splice_lazy_own st nx v sb eb pat f src n cl r D L :
  1 <= nx ->
  sp_splice_lazy c st nx v sb eb pat f src n cl = Some r ->
  Permutation (created c nx) (vis st ++ D ++ L) ->
  Permutation (created c (s_nx r))
    (vis (s_st r) ++ (D ++ drops (s_evs r)) ++ (L ++ leak_of c st nx (OSplice Erased v sb eb pat f (RLazy src) n None cl))).
Proof.
  intros Hnx Hr Hinv. unfold sp_splice_lazy in Hr. cbn [leak_of].
  destruct (Nat.eqb src v); [discriminate|].
  destruct (get_a v st) as [a|] eqn:Hg; [|discriminate].
  destruct (get_a src st) as [b|]; [|discriminate]. cbv zeta in Hr.
  set (xs := a_xs a) in *.
  pose proof (vis_get_any st v) as Hvis. rewrite Hg in Hvis. cbn [slot_xs] in Hvis. fold xs in Hvis.
  destruct ((0 <? n) && (length (a_xs b) =? 0)%nat).
  { injection Hr as <-. cbn [panic_res s_nx s_st s_evs drops flat_map]. perm_count. }
  destruct (range_of_bounds usize_max (N.of_nat (length xs)) (to_sb sb) (to_sb eb)) as [[sN eN]|] eqn:Erb.
  - assert (Hb : sN <= eN /\ eN <= N.of_nat (length xs)).
    { unfold range_of_bounds in Erb.
      repeat match type of Erb with
      | context [match ?x with _ => _ end] => destruct x eqn:?; try discriminate
      | context [if ?x then _ else _] => destruct x eqn:?; try discriminate
      end.
      injection Erb as <- <-. match goal with H : (_ && _)%bool = true |- _ => apply andb_prop in H; destruct H as [H1 H2] end.
      apply N.leb_le in H1, H2. lia. }
    set (s := N.to_nat sN) in *. set (e := N.to_nat eN) in *.
    assert (Hse : (s <= e)%nat) by lia. assert (Hel : (e <= length xs)%nat) by lia.
    destruct (sp_walk xs pat s e) as [[[[rets ds] i] j]|] eqn:Ew; [|discriminate].
    destruct (sp_walk_perm xs pat s e rets ds i j Hse Hel Ew) as (Hp & Hb1 & Hb2 & Hb3).
    assert (Hx : Permutation xs (firstn s xs ++ firstn (e - s) (skipn s xs) ++ skipn e xs)).
    { rewrite <- (firstn_skipn s xs) at 1. apply Permutation_app_head.
      rewrite (skipn_split_range xs s e Hse) at 1. reflexivity. }
    pose proof (vis_set_any st v (Some (with_xs a (firstn s xs)))) as H1. cbn [slot_xs with_xs a_xs] in H1.
    destruct f.
    + destruct (usize_max <? N.of_nat s + cl + N.of_nat (length xs - e)) eqn:Eov.
      * injection Hr as <-. cbn [panic_res s_nx s_st s_evs orb].
        rewrite drops_yielded. perm_count.
      * destruct (match acap c (a_bk a) with Some cap => cap <? N.of_nat s + cl + N.of_nat (length xs - e) | None => false end) eqn:Ecap.
        -- injection Hr as <-. cbn [panic_res s_nx s_st s_evs orb].
           rewrite drops_yielded. perm_count.
        -- injection Hr as <-. cbn [ok_res s_nx s_st s_evs orb].
           set (wr := Nat.min (N.to_nat cl) (N.to_nat n)) in *.
           set (ts := next_ids c nx wr) in *.
           assert (Hcr : created c (nx + N.of_nat wr) = created c nx ++ ts) by (apply created_add; exact Hnx).
           rewrite Hcr.
           pose proof (vis_set_any st v (Some (with_xs a (VecSpec.sp_splice s e ts xs)))) as H2.
           cbn [slot_xs with_xs a_xs] in H2. unfold VecSpec.sp_splice in *.
           rewrite !drops_app, drops_yielded, Hdg, !drops_map, lazy_fill_no_drops.
           assert (Hn : drops (if n <? cl then [ENext] else []) = []) by (destruct (n <? cl); reflexivity).
           rewrite Hn. perm_count.
    + injection Hr as <-. cbn [ok_res s_nx s_st s_evs]. rewrite drops_yielded. perm_count.
  - injection Hr as <-. cbn [panic_res s_nx s_st s_evs drops flat_map].
    destruct f; perm_count.
Qed.



Lemma splice_mv_own st nx v sb eb pat f rk n wa cl r D L :
  1 <= nx ->
  sp_splice c st nx v sb eb pat f rk n wa cl = None ->
  sp_splice_mv c st nx v sb eb pat f rk n wa cl = Some r ->
  Permutation (created c nx) (vis st ++ D ++ L) ->
  Permutation (created c (s_nx r))
    (vis (s_st r) ++ (D ++ drops (s_evs r)) ++ (L ++ leak_of c st nx (OSplice Erased v sb eb pat f rk n wa cl))).
Proof.
  intros Hnx Hnone Hr0 Hinv.
  destruct (sp_splice_mv_inv _ _ _ _ _ _ _ _ _ _ _ _ _ Hr0) as (Hrk & -> & Hr). clear Hr0.
  assert (Hgd : (match rk, @None N with
          | RLazy src, None => match get_a src st with Some b => (0 <? n) && (length (a_xs b) =? 0)%nat | None => false end
          | _, _ => false
          end) = false) by (destruct Hrk as [-> | ->]; reflexivity).
  assert (Hnone' : sp_splice c st nx v sb eb pat f RWrap n None cl = None) by (destruct Hrk as [-> | ->]; exact Hnone).
  clear Hnone. unfold sp_splice in Hnone'. unfold sp_splice_mv0 in Hr. cbn [leak_of]. rewrite Hgd. clear Hgd Hrk.
  destruct (get_a v st) as [a|] eqn:Hg; [|discriminate]. cbv zeta in Hr, Hnone'.
  set (xs := a_xs a) in *.
  set (ts := next_ids c nx (N.to_nat n)) in *.
  assert (Hcr : created c (nx + n) = created c nx ++ ts).
  { replace (nx + n) with (nx + N.of_nat (N.to_nat n)) by lia. apply created_add. exact Hnx. }
  pose proof (vis_get_any st v) as Hvis. rewrite Hg in Hvis. cbn [slot_xs] in Hvis. fold xs in Hvis.
  destruct (range_of_bounds usize_max (N.of_nat (length xs)) (to_sb sb) (to_sb eb)) as [[sN eN]|] eqn:Erb; [|discriminate].
  assert (Hb : sN <= eN /\ eN <= N.of_nat (length xs)).
  { unfold range_of_bounds in Erb.
    repeat match type of Erb with
    | context [match ?x with _ => _ end] => destruct x eqn:?; try discriminate
    | context [if ?x then _ else _] => destruct x eqn:?; try discriminate
    end.
    injection Erb as <- <-. match goal with H : (_ && _)%bool = true |- _ => apply andb_prop in H; destruct H as [H1 H2] end.
    apply N.leb_le in H1, H2. lia. }
  set (s := N.to_nat sN) in *. set (e := N.to_nat eN) in *.
  assert (Hse : (s <= e)%nat) by lia. assert (Hel : (e <= length xs)%nat) by lia.
  destruct (sp_walk xs pat s e) as [[[[rets0 ds0] i0] j0]|] eqn:Ew.
  { destruct f; [|discriminate]. destruct (usize_max <? N.of_nat s + cl + N.of_nat (length xs - e)); [discriminate|].
    destruct (match acap c (a_bk a) with Some cap => cap <? N.of_nat s + cl + N.of_nat (length xs - e) | None => false end); discriminate. }
  clear Hnone'.
  set (hidden := set_a v (Some (with_xs a (firstn s xs))) st) in *.
  destruct (sp_walk_mv c v xs pat s e hidden (nx + n)) as [wr|] eqn:Em; [|discriminate].
  pose proof (sp_walk_mv_perm v xs pat s e hidden (nx + n) wr Hse Hel ltac:(lia) Em) as Hw.
  pose proof (vis_set_any st v (Some (with_xs a (firstn s xs)))) as Hh. cbn [slot_xs with_xs a_xs] in Hh. fold hidden in Hh.
  assert (Hx : Permutation xs (firstn s xs ++ firstn (e - s) (skipn s xs) ++ skipn e xs)).
  { rewrite <- (firstn_skipn s xs) at 1. apply Permutation_app_head.
    rewrite (skipn_split_range xs s e Hse) at 1. reflexivity. }
  assert (Hfin : forall i j, match sp_splice_fin c a s e i j ts cl n with
                 | inl _ => True
                 | inr (fevs, ys) => drops fevs = firstn (j - i) (skipn i xs) ++ skipn (Nat.min (N.to_nat cl) (N.to_nat n)) ts /\
                                     ys = firstn s xs ++ firstn (Nat.min (N.to_nat cl) (N.to_nat n)) ts ++ skipn e xs
                 end).
  { intros i j. unfold sp_splice_fin. cbv zeta. fold xs.
    destruct (usize_max <? N.of_nat s + cl + N.of_nat (length xs - e)); [exact I|].
    destruct (match acap c (a_bk a) with Some cap => cap <? N.of_nat s + cl + N.of_nat (length xs - e) | None => false end); [exact I|].
    split; [|reflexivity]. rewrite !drops_app, Hdg, !drops_map, drops_nexts. reflexivity. }
  set (wr' := Nat.min (N.to_nat cl) (N.to_nat n)) in *.
  assert (Hts : Permutation ts (firstn wr' ts ++ skipn wr' ts)) by (rewrite firstn_skipn; reflexivity).
  destruct wr as [rets evs i j st' lost nx2|p evs i j st' lost nx2]; cbn [wres_parts] in Hw;
    destruct Hw as (news & Hcr2 & Hp & Hb1 & Hb2 & Hb3 & Hgv & Hge);
    pose proof (vis_get_any st' v) as Hv'; rewrite Hgv in Hv'; unfold hidden in Hv'; rewrite get_a_set_same' in Hv';
    cbn [slot_xs with_xs a_xs] in Hv'; specialize (Hfin i j).
  - destruct f.
    + destruct (sp_splice_fin c a s e i j ts cl n) as [p|[fevs ys]]; injection Hr as <-;
        cbn [ok_res panic_res s_nx s_st s_evs]; rewrite Hcr2, Hcr.
      * rewrite drops_app, Hdg, drops_map. perm_count2.
      * destruct Hfin as [Hd ->].
        pose proof (vis_set_any st' v (Some (with_xs a (firstn s xs ++ firstn wr' ts ++ skipn e xs)))) as H1. cbn [slot_xs with_xs a_xs] in H1.
        rewrite drops_app, Hd. perm_count2.
    + injection Hr as <-. cbn [ok_res s_nx s_st s_evs]. rewrite Hcr2, Hcr. perm_count2.
  - destruct (sp_splice_fin c a s e i j ts cl n) as [p'|[fevs ys]]; [discriminate|]. injection Hr as <-.
    cbn [panic_res s_nx s_st s_evs]. rewrite Hcr2, Hcr. destruct Hfin as [Hd ->].
    pose proof (vis_set_any st' v (Some (with_xs a (firstn s xs ++ firstn wr' ts ++ skipn e xs)))) as H1. cbn [slot_xs with_xs a_xs] in H1.
    rewrite drops_app, Hd. perm_count2.
Qed.

Lemma splice_wrong_own st nx v sb eb pat f rk n j cl r D L :
  1 <= nx ->
  sp_splice_wrong c st nx v sb eb pat f rk n j cl = Some r ->
  Permutation (created c nx) (vis st ++ D ++ L) ->
  Permutation (created c (s_nx r))
    (vis (s_st r) ++ (D ++ drops (s_evs r)) ++ (L ++ leak_of c st nx (OSplice Erased v sb eb pat f rk n (Some j) cl))).
Proof.
  intros Hnx Hr0 Hinv. unfold sp_splice_wrong in Hr0.
  assert (Hr : (if negb (j <? n) || negb (cl =? n) then None else
                match get_a v st with
                | None => None
                | Some a0 => _ end) = Some r) by (destruct rk; [exact Hr0|exact Hr0|discriminate]).
  clear Hr0. cbn [leak_of].
  destruct (N.ltb_spec j n) as [Hjn|]; [|discriminate]. cbn [negb orb] in Hr.
  destruct (N.eqb_spec cl n) as [->|]; [|discriminate]. cbn [negb] in Hr.
  destruct (get_a v st) as [a|] eqn:Hg; [|discriminate]. cbv zeta in Hr.
  set (xs := a_xs a) in *.
  set (ts := next_ids c nx (N.to_nat n)) in *.
  assert (Hcr : created c (nx + n) = created c nx ++ ts).
  { replace (nx + n) with (nx + N.of_nat (N.to_nat n)) by lia. apply created_add. exact Hnx. }
  pose proof (vis_get_any st v) as Hvis. rewrite Hg in Hvis. cbn [slot_xs] in Hvis. fold xs in Hvis.
  destruct (range_of_bounds usize_max (N.of_nat (length xs)) (to_sb sb) (to_sb eb)) as [[sN eN]|] eqn:Erb.
  - assert (Hb : sN <= eN /\ eN <= N.of_nat (length xs)).
    { unfold range_of_bounds in Erb.
      repeat match type of Erb with
      | context [match ?x with _ => _ end] => destruct x eqn:?; try discriminate
      | context [if ?x then _ else _] => destruct x eqn:?; try discriminate
      end.
      injection Erb as <- <-. match goal with H : (_ && _)%bool = true |- _ => apply andb_prop in H; destruct H as [H1 H2] end.
      apply N.leb_le in H1, H2. lia. }
    set (s := N.to_nat sN) in *. set (e := N.to_nat eN) in *.
    assert (Hse : (s <= e)%nat) by lia. assert (Hel : (e <= length xs)%nat) by lia.
    destruct (sp_walk xs pat s e) as [[[[rets ds] i] j2]|] eqn:Ew; [|discriminate].
    destruct (sp_walk_perm xs pat s e rets ds i j2 Hse Hel Ew) as (Hp & Hb1 & Hb2 & Hb3).
    assert (Hx : Permutation xs (firstn s xs ++ firstn (e - s) (skipn s xs) ++ skipn e xs)).
    { rewrite <- (firstn_skipn s xs) at 1. apply Permutation_app_head.
      rewrite (skipn_split_range xs s e Hse) at 1. reflexivity. }
    pose proof (vis_set_any st v (Some (with_xs a (firstn s xs)))) as H1. cbn [slot_xs with_xs a_xs] in H1.
    assert (Hts : Permutation ts (firstn (N.to_nat j) ts ++ skipn (N.to_nat j) ts)) by (rewrite firstn_skipn; reflexivity).
    destruct f.
    + destruct (usize_max <? N.of_nat s + n + N.of_nat (length xs - e)) eqn:Eov.
      * injection Hr as <-. cbn [panic_res s_nx s_st s_evs orb]. rewrite Hcr.
        rewrite drops_app, drops_yielded, Hdg, drops_map. perm_count.
      * destruct (match acap c (a_bk a) with Some cap => cap <? N.of_nat s + n + N.of_nat (length xs - e) | None => false end) eqn:Ecap.
        -- injection Hr as <-. cbn [panic_res s_nx s_st s_evs orb]. rewrite Hcr.
           rewrite drops_app, drops_yielded, Hdg, drops_map. perm_count.
        -- injection Hr as <-. cbn [panic_res s_nx s_st s_evs orb]. rewrite Hcr.
           assert (Hdn : forall l, drops (ENext :: l) = drops l) by reflexivity.
           rewrite !drops_app, ?Hdn, !drops_app, drops_yielded, Hdg, !drops_map, drops_nexts. perm_count.
    + injection Hr as <-. cbn [ok_res s_nx s_st s_evs]. rewrite Hcr. rewrite drops_yielded. perm_count.
  - injection Hr as <-. cbn [panic_res s_nx s_st s_evs]. rewrite Hcr, Hdg, drops_map.
    destruct f; perm_count.
Qed.

Lemma new_own st nx dst bk r D L :
  sp_new c st nx dst bk = Some r ->
  Permutation (created c nx) (vis st ++ D ++ L) ->
  Permutation (created c (s_nx r)) (vis (s_st r) ++ (D ++ drops (s_evs r)) ++ (L ++ new_leak c st dst bk)).
Proof.
  intros Hr Hinv. unfold sp_new in Hr. unfold new_leak.
  pose proof (vis_get_any st dst) as Hv. pose proof (vis_set_any st dst (Some {| a_bk := bk; a_xs := [] |})) as H1.
  cbn [slot_xs a_xs app] in H1.
  destruct bk as [|size|n size| |c0]; try (injection Hr as <-; cbn [ok_res s_nx s_st s_evs drops flat_map]; perm_count).
  destruct (stackn_fits n (c_sz c) size); injection Hr as <-;
    cbn [ok_res panic_res s_nx s_st s_evs drops flat_map]; perm_count.
Qed.

Lemma app_nil_perm (l : list N) : Permutation (l ++ []) l.
Proof. rewrite app_nil_r. reflexivity. Qed.

Lemma look_own st nx o r D L :
  1 <= nx -> sp_look c st nx o = Some r ->
  Permutation (created c nx) (vis st ++ D ++ L) ->
  Permutation (created c (s_nx r)) (vis (s_st r) ++ (D ++ drops (s_evs r)) ++ (L ++ [])).
Proof.
  intros Hnx Hr Hinv. unfold sp_look in Hr.
  repeat match type of Hr with
  | Some _ = Some _ => injection Hr as <-
  | None = Some _ => discriminate Hr
  | context [match ?x with _ => _ end] => destruct x eqn:?
  | context [if ?x then _ else _] => destruct x eqn:?
  end; cbn [ok_res none_res panic_res s_nx s_st s_evs drops flat_map]; try solve [perm_count].
  rewrite (created_succ c nx Hnx). unfold drop_ev. rewrite Hdg. cbn [drops flat_map app]. perm_count.
Qed.

Lemma offer_wrong_own st nx v k r D L :
  1 <= nx -> sp_offer_wrong c st nx v k = Some r ->
  Permutation (created c nx) (vis st ++ D ++ L) ->
  Permutation (created c (s_nx r)) (vis (s_st r) ++ (D ++ drops (s_evs r)) ++ (L ++ [])).
Proof.
  intros Hnx Hr Hinv. unfold sp_offer_wrong in Hr.
  destruct (get_a v st); [|discriminate]. destruct (k =? c_ty c); [discriminate|]. injection Hr as <-.
  cbn [panic_res s_nx s_st s_evs].
  rewrite (created_succ c nx Hnx). unfold drop_ev. rewrite Hdg. cbn [drops flat_map app]. perm_count.
Qed.

Lemma upd_perm (xs : list N) i t : (i < length xs)%nat -> Permutation (nth i xs 0 :: sp_upd i t xs) (t :: xs).
Proof.
  intros Hi. unfold sp_upd.
  pose proof (firstn_skipn i xs) as E. rewrite (skipn_nth_cons 0 xs i Hi) in E.
  apply perm_cnt. intros x. apply (f_equal (cnt x)) in E.
  rewrite cnt_app, cnt_cons in E. rewrite !cnt_cons, cnt_app, cnt_cons. lia.
Qed.

Lemma write_own st nx v idx r D L :
  1 <= nx -> sp_write c st nx v idx = Some r ->
  Permutation (created c nx) (vis st ++ D ++ L) ->
  Permutation (created c (s_nx r)) (vis (s_st r) ++ (D ++ drops (s_evs r)) ++ (L ++ [])).
Proof.
  intros Hnx Hr Hinv. unfold sp_write in Hr.
  destruct (get_a v st) as [a|] eqn:Hg; [|discriminate]. cbv zeta in Hr.
  pose proof (vis_get_any st v) as Hv. rewrite Hg in Hv. cbn [slot_xs] in Hv.
  destruct (N.ltb_spec idx (N.of_nat (length (a_xs a)))) as [Hlt|Hge]; injection Hr as <-.
  - cbn [ok_res s_nx s_st s_evs]. rewrite (created_succ c nx Hnx). rewrite drops_drop_ev by exact Hdg.
    pose proof (vis_set_any st v (Some (with_xs a (sp_upd (N.to_nat idx) (tok c nx) (a_xs a))))) as H1.
    cbn [slot_xs with_xs a_xs] in H1.
    pose proof (upd_perm (a_xs a) (N.to_nat idx) (tok c nx) ltac:(lia)) as H2.
    perm_count.
  - cbn [panic_res s_nx s_st s_evs drops flat_map]. perm_count.
Qed.

Lemma swap_own st nx v1 i v2 j r D L :
  sp_swap c st nx v1 i v2 j = Some r ->
  Permutation (created c nx) (vis st ++ D ++ L) ->
  Permutation (created c (s_nx r)) (vis (s_st r) ++ (D ++ drops (s_evs r)) ++ (L ++ [])).
Proof.
  intros Hr Hinv. unfold sp_swap in Hr.
  destruct (Nat.eqb_spec v1 v2) as [|Hne]; [discriminate|].
  destruct (get_a v1 st) as [a|] eqn:Hga; [|discriminate].
  destruct (get_a v2 st) as [b|] eqn:Hgb; [|discriminate].
  destruct (N.ltb_spec i (N.of_nat (length (a_xs a)))) as [Hi|Hi]; cbn [negb orb] in Hr.
  2:{ injection Hr as <-. cbn [panic_res s_nx s_st s_evs drops flat_map]. perm_count. }
  destruct (N.ltb_spec j (N.of_nat (length (a_xs b)))) as [Hj|Hj]; cbn [negb] in Hr.
  2:{ injection Hr as <-. cbn [panic_res s_nx s_st s_evs drops flat_map]. perm_count. }
  injection Hr as <-. cbn [ok_res s_nx s_st s_evs drops flat_map].
  set (x := nth (N.to_nat i) (a_xs a) 0). set (y := nth (N.to_nat j) (a_xs b) 0).
  set (st1 := set_a v1 (Some (with_xs a (sp_upd (N.to_nat i) y (a_xs a)))) st).
  assert (Hgb1 : get_a v2 st1 = Some b).
  { rewrite WorldCore.get_a_slot. unfold st1, set_a. rewrite WorldCore.slot_set_nth.
    destruct (Nat.eqb_spec v2 v1); [congruence|]. rewrite <- WorldCore.get_a_slot. exact Hgb. }
  pose proof (vis_get_any st v1) as Hv1. rewrite Hga in Hv1. cbn [slot_xs] in Hv1.
  pose proof (vis_set_any st v1 (Some (with_xs a (sp_upd (N.to_nat i) y (a_xs a))))) as H1. fold st1 in H1.
  cbn [slot_xs with_xs a_xs] in H1.
  pose proof (vis_get_any st1 v2) as Hv2. rewrite Hgb1 in Hv2. cbn [slot_xs] in Hv2.
  pose proof (vis_set_any st1 v2 (Some (with_xs b (sp_upd (N.to_nat j) x (a_xs b))))) as H2.
  cbn [slot_xs with_xs a_xs] in H2.
  pose proof (upd_perm (a_xs a) (N.to_nat i) y ltac:(lia)) as H3. fold x in H3.
  pose proof (upd_perm (a_xs b) (N.to_nat j) x ltac:(lia)) as H4. fold y in H4.
  perm_count.
Qed.

Lemma remove_perm' (xs : list N) i : (i < length xs)%nat -> Permutation xs (nth i xs 0 :: sp_remove i xs).
Proof.
  intros Hi. unfold sp_remove. rewrite <- (firstn_skipn i xs) at 1.
  rewrite (skipn_nth_cons 0 xs i Hi). symmetry. apply Permutation_middle.
Qed.
Lemma swap_temp_own st nx v1 i v2 j r D L :
  sp_swap_temp c st nx v1 i v2 j = Some r ->
  Permutation (created c nx) (vis st ++ D ++ L) ->
  Permutation (created c (s_nx r)) (vis (s_st r) ++ (D ++ drops (s_evs r)) ++ (L ++ [])).
Proof.
  intros Hr Hinv. unfold sp_swap_temp in Hr.
  destruct (Nat.eqb_spec v1 v2) as [|Hne]; [discriminate|].
  destruct (get_a v1 st) as [a|] eqn:Hga; [|discriminate].
  destruct (get_a v2 st) as [b|] eqn:Hgb; [|discriminate].
  destruct (N.ltb_spec i (N.of_nat (length (a_xs a)))) as [Hi|Hi]; cbn [negb orb] in Hr.
  2:{ injection Hr as <-. cbn [panic_res s_nx s_st s_evs drops flat_map]. perm_count. }
  destruct (N.ltb_spec j (N.of_nat (length (a_xs b)))) as [Hj|Hj]; cbn [negb] in Hr.
  2:{ injection Hr as <-. cbn [panic_res s_nx s_st s_evs drops flat_map]. perm_count. }
  injection Hr as <-. cbn [ok_res s_nx s_st s_evs]. unfold drop_ev. rewrite Hdg. cbn [drops flat_map app].
  set (x := nth (N.to_nat i) (a_xs a) 0). set (y := nth (N.to_nat j) (a_xs b) 0).
  set (st1 := set_a v1 (Some (with_xs a (sp_remove (N.to_nat i) (a_xs a)))) st).
  assert (Hgb1 : get_a v2 st1 = Some b).
  { rewrite WorldCore.get_a_slot. unfold st1, set_a. rewrite WorldCore.slot_set_nth.
    destruct (Nat.eqb_spec v2 v1); [congruence|]. rewrite <- WorldCore.get_a_slot. exact Hgb. }
  pose proof (vis_get_any st v1) as Hv1. rewrite Hga in Hv1. cbn [slot_xs] in Hv1.
  pose proof (vis_set_any st v1 (Some (with_xs a (sp_remove (N.to_nat i) (a_xs a))))) as H1. fold st1 in H1.
  cbn [slot_xs with_xs a_xs] in H1.
  pose proof (vis_get_any st1 v2) as Hv2. rewrite Hgb1 in Hv2. cbn [slot_xs] in Hv2.
  pose proof (vis_set_any st1 v2 (Some (with_xs b (sp_upd (N.to_nat j) x (a_xs b))))) as H2.
  cbn [slot_xs with_xs a_xs] in H2.
  pose proof (remove_perm' (a_xs a) (N.to_nat i) ltac:(lia)) as H3. fold x in H3.
  pose proof (upd_perm (a_xs b) (N.to_nat j) x ltac:(lia)) as H4. fold y in H4.
  perm_count.
Qed.

Lemma offer_lazy_own st nx v idx src sidx r D L :
  1 <= nx -> sp_offer_lazy c st nx v idx src sidx = Some r ->
  Permutation (created c nx) (vis st ++ D ++ L) ->
  Permutation (created c (s_nx r)) (vis (s_st r) ++ (D ++ drops (s_evs r)) ++ (L ++ [])).
Proof.
  intros Hnx Hr Hinv. unfold sp_offer_lazy in Hr.
  destruct (Nat.eqb src v); [discriminate|].
  destruct (get_a v st) as [a|] eqn:Hg; [|discriminate].
  destruct (get_a src st) as [b|]; [|discriminate].
  destruct (sidx <? N.of_nat (length (a_xs b))).
  - cbv zeta in Hr. destruct (put_value c a idx (tok c nx)) as [xs'|p] eqn:Ep; injection Hr as <-.
    + cbn [ok_res s_nx s_st s_evs drops flat_map app]. rewrite (created_succ c nx Hnx).
      pose proof (put_value_perm c a idx (tok c nx) xs' Ep) as Hp.
      pose proof (vis_get_any st v) as Hv. rewrite Hg in Hv. cbn [slot_xs] in Hv.
      pose proof (vis_set_any st v (Some (with_xs a xs'))) as H1. cbn [slot_xs with_xs a_xs] in H1.
      perm_count.
    + cbn [panic_res s_nx s_st s_evs drops flat_map]. perm_count.
  - injection Hr as <-. cbn [panic_res s_nx s_st s_evs drops flat_map]. perm_count.
Qed.

Lemma offer_temp_own st nx v idx src k sidx r D L :
  1 <= nx -> sp_offer_temp c st nx v idx src k sidx = Some r ->
  Permutation (created c nx) (vis st ++ D ++ L) ->
  Permutation (created c (s_nx r)) (vis (s_st r) ++ (D ++ drops (s_evs r)) ++ (L ++ [])).
Proof.
  intros Hnx Hr Hinv. unfold sp_offer_temp in Hr.
  set (sidx' := match k with TPop => 0 | _ => sidx end) in *.
  set (sk := match idx with None => KPush v | Some i => KIns v i end) in *.
  destruct (sp_take c st nx src k sidx' sk) as [r0|] eqn:E0; [|discriminate]. injection Hr as <-.
  assert (Hp : k = TPop -> sidx' = 0) by (intros ->; reflexivity).
  pose proof (take_own st nx src k sidx' sk r0 D L Hp Hnx E0 Hinv) as H.
  assert (Hl : match get_a src st with
               | Some a =>
                   match k with
                   | TPop => if (length (a_xs a) =? 0)%nat then [] else sink_leak c st nx src a (length (a_xs a) - 1) sk
                   | _ => if sidx' <? N.of_nat (length (a_xs a)) then sink_leak c st nx src a (N.to_nat sidx') sk else []
                   end
               | None => []
               end = []).
  { unfold sk. destruct (get_a src st) as [a0|]; [|reflexivity].
    destruct k; destruct idx; cbn [sink_leak];
      repeat match goal with |- context [if ?x then _ else _] => destruct x end; reflexivity. }
  rewrite Hl in H.
  destruct (N.eqb_spec (s_out r0) 1) as [Ho|Ho]; [|exact H].
  cbn [panic_res s_nx s_st s_evs drops flat_map]. perm_count.
Qed.

Lemma offer_userlazy_own st nx v idx r D L :
  1 <= nx -> sp_offer_userlazy c st nx v idx = Some r ->
  Permutation (created c nx) (vis st ++ D ++ L) ->
  Permutation (created c (s_nx r)) (vis (s_st r) ++ (D ++ drops (s_evs r)) ++ (L ++ [])).
Proof.
  intros Hnx Hr Hinv. unfold sp_offer_userlazy in Hr.
  destruct (get_a v st) as [a|] eqn:Hg; [|discriminate]. cbv zeta in Hr.
  destruct (put_value c a idx (tok c (nx + 1))) as [xs'|p] eqn:Ep; injection Hr as <-.
  - cbn [ok_res s_nx s_st s_evs].
    replace (nx + 2) with (nx + 1 + 1) by lia.
    rewrite (created_succ c (nx + 1) ltac:(lia)), (created_succ c nx Hnx).
    pose proof (put_value_perm c a idx (tok c (nx + 1)) xs' Ep) as Hp.
    pose proof (vis_get_any st v) as Hv. rewrite Hg in Hv. cbn [slot_xs] in Hv.
    pose proof (vis_set_any st v (Some (with_xs a xs'))) as H1. cbn [slot_xs with_xs a_xs] in H1.
    unfold drop_ev. rewrite Hdg. cbn [drops flat_map app]. perm_count.
  - cbn [panic_res s_nx s_st s_evs]. rewrite (created_succ c nx Hnx).
    unfold drop_ev. rewrite Hdg. cbn [drops flat_map app]. perm_count.
Qed.

Theorem step_own st nx o r D L :
  1 <= nx -> spec_step c st nx o = Some r ->
  Permutation (created c nx) (vis st ++ D ++ L) ->
  Permutation (created c (s_nx r)) (vis (s_st r) ++ (D ++ drops (s_evs r)) ++ (L ++ leak_of c st nx o)).
Proof.
  intros Hnx Hr Hinv. destruct o; cbn [spec_step] in Hr; try discriminate;
    try exact (look_own st nx _ r D L Hnx Hr Hinv).
  - (* ONew *)
    exact (new_own st nx dst bk r D L Hr Hinv).
  - (* OWithCapacity *)
    cbn [leak_of]. destruct (resizable bk); [|discriminate].
    destruct (layout_limit c bk <? c_sz c * n); [|exact (new_own st nx dst bk r D L Hr Hinv)].
    injection Hr as <-. cbn [panic_res s_nx s_st s_evs drops flat_map]. perm_count.
  - (* ODropVec *)
    destruct (get_a v st) as [av|] eqn:Hg; [|discriminate]. injection Hr as <-.
    pose proof (vis_get_any st v) as Hv. rewrite Hg in Hv. cbn [slot_xs] in Hv.
    cbn [ok_res s_nx s_st s_evs leak_of]. rewrite Hdg, drops_map. perm_count.
  - (* OPush *)
    cbn [leak_of]. destruct (fresh_src s).
    + pose proof (offer_own st nx v None r D L Hnx Hr Hinv) as H. perm_count.
    + destruct s; try (destruct a; discriminate).
      * destruct a; [|discriminate]. exact (offer_wrong_own st nx v k r D L Hnx Hr Hinv).
      * destruct a; [|discriminate]. exact (offer_wrong_own st nx v k r D L Hnx Hr Hinv).
      * assert (Hr' : sp_offer_lazy c st nx v None vid idx = Some r) by (destruct a; exact Hr).
        exact (offer_lazy_own st nx v None vid idx r D L Hnx Hr' Hinv).
      * destruct a; [|discriminate]. exact (offer_temp_own st nx v None vid k idx r D L Hnx Hr Hinv).
      * destruct a; [|discriminate]. exact (offer_userlazy_own st nx v None r D L Hnx Hr Hinv).
  - (* OInsert *)
    cbn [leak_of]. destruct (fresh_src s).
    + pose proof (offer_own st nx v (Some idx) r D L Hnx Hr Hinv) as H. perm_count.
    + destruct s; try (destruct a; discriminate).
      * destruct a; [|discriminate]. exact (offer_wrong_own st nx v k r D L Hnx Hr Hinv).
      * destruct a; [|discriminate]. exact (offer_wrong_own st nx v k r D L Hnx Hr Hinv).
      * assert (Hr' : sp_offer_lazy c st nx v (Some idx) vid idx0 = Some r) by (destruct a; exact Hr).
        exact (offer_lazy_own st nx v (Some idx) vid idx0 r D L Hnx Hr' Hinv).
      * destruct a; [|discriminate]. exact (offer_temp_own st nx v (Some idx) vid k idx0 r D L Hnx Hr Hinv).
      * destruct a; [|discriminate]. exact (offer_userlazy_own st nx v (Some idx) r D L Hnx Hr Hinv).
  - (* OPop *)
    pose proof (take_own st nx v TPop 0 k r D L (fun _ => eq_refl) Hnx Hr Hinv) as H.
    cbn [leak_of]. exact H.
  - (* ORemove *)
    pose proof (take_own st nx v TRemove idx k r D L ltac:(discriminate) Hnx Hr Hinv) as H.
    cbn [leak_of]. exact H.
  - (* OSwapRemove *)
    pose proof (take_own st nx v TSwapRemove idx k r D L ltac:(discriminate) Hnx Hr Hinv) as H.
    cbn [leak_of]. exact H.
  - (* OClear *)
    destruct (get_a v st) as [av|] eqn:Hg; [|discriminate]. injection Hr as <-.
    pose proof (vis_get_any st v) as Hv. rewrite Hg in Hv. cbn [slot_xs] in Hv.
    pose proof (vis_set_any st v (Some (with_xs av []))) as H1. cbn [slot_xs with_xs a_xs app] in H1.
    cbn [ok_res s_nx s_st s_evs leak_of]. rewrite Hdg, drops_map. perm_count.
  - (* OGet *)
    destruct (get_a v st) as [av|]; [|discriminate].
    destruct (idx <? N.of_nat (length (a_xs av))); injection Hr as <-;
      cbn [ok_res none_res s_nx s_st s_evs leak_of drops flat_map]; perm_count.
  - (* OAt *)
    destruct (get_a v st) as [av|]; [|discriminate].
    destruct (idx <? N.of_nat (length (a_xs av))); injection Hr as <-;
      cbn [ok_res panic_res s_nx s_st s_evs leak_of drops flat_map]; perm_count.
  - destruct (sp_drain c st nx v sb eb pat f) as [r0|] eqn:Ed.
    + injection Hr as <-. exact (drain_own st nx v sb eb pat f r0 D L Ed Hinv).
    + exact (drain_mv_own st nx v sb eb pat f r D L Hnx Ed Hr Hinv).
  - assert (Hgen : forall rk' wa',
              match sp_splice c st nx v sb eb pat f rk' n wa' claimed with
              | Some r0 => Some r0
              | None => sp_splice_mv c st nx v sb eb pat f rk' n wa' claimed
              end = Some r ->
              Permutation (created c (s_nx r))
                (vis (s_st r) ++ (D ++ drops (s_evs r)) ++ (L ++ leak_of c st nx (OSplice Erased v sb eb pat f rk' n wa' claimed)))).
    { intros rk' wa' H'. destruct (sp_splice c st nx v sb eb pat f rk' n wa' claimed) as [r0|] eqn:Es.
      - injection H' as <-. exact (splice_own st nx v sb eb pat f rk' n wa' claimed r0 D L Hnx Es Hinv).
      - exact (splice_mv_own st nx v sb eb pat f rk' n wa' claimed r D L Hnx Es H' Hinv). }
    destruct wrong_at as [wa|].
    { assert (Hr2 : sp_splice_wrong c st nx v sb eb pat f rk n wa claimed = Some r) by (destruct rk; exact Hr).
      exact (splice_wrong_own st nx v sb eb pat f rk n wa claimed r D L Hnx Hr2 Hinv). }
    destruct rk as [| |src]; [exact (Hgen RWrap None Hr)|exact (Hgen RBox None Hr)|].
    exact (splice_lazy_own st nx v sb eb pat f src n claimed r D L Hnx Hr Hinv).
  - (* OClone *)
    unfold sp_clone in Hr. cbn [leak_of]. destruct (Nat.eqb dst v); [discriminate|].
    destruct (get_a v st) as [av|] eqn:Hg; [|discriminate]. injection Hr as <-.
    cbn [ok_res s_nx s_st s_evs]. rewrite (created_add c nx _ Hnx).
    pose proof (vis_get_any st dst) as Hv.
    pose proof (vis_set_any st dst (Some {| a_bk := a_bk av; a_xs := next_ids c nx (length (a_xs av)) |})) as H1.
    cbn [slot_xs a_xs] in H1.
    assert (Hnd : drops (map (fun p : N * N => EClone (fst p) (snd p)) (combine (a_xs av) (next_ids c nx (length (a_xs av))))) = []).
    { generalize (combine (a_xs av) (next_ids c nx (length (a_xs av)))) as l. induction l as [|p l IH]; [reflexivity|exact IH]. }
    rewrite Hnd. perm_count.
  - (* OCloneEmpty *)
    cbn [leak_of]. destruct (get_a v st) as [av|]; [|discriminate]. destruct (Nat.eqb dst v); [discriminate|].
    exact (new_own st nx dst (a_bk av) r D L Hr Hinv).
  - (* OCloneEmptyIn *)
    cbn [leak_of]. destruct (get_a v st) as [av|]; [|discriminate]. destruct (Nat.eqb dst v); [discriminate|].
    exact (new_own st nx dst bk r D L Hr Hinv).
  - exact (capacity_own st nx v (Some n) false r D L Hr Hinv).
  - exact (capacity_own st nx v (Some n) true r D L Hr Hinv).
  - exact (capacity_own st nx v None false r D L Hr Hinv).
  - exact (capacity_own st nx v None false r D L Hr Hinv).
  - (* OViews *)
    unfold sp_views in Hr. destruct (get_a v st) as [av|]; [|discriminate]. destruct (acap c (a_bk av)); [|discriminate].
    injection Hr as <-. cbn [ok_res s_nx s_st s_evs leak_of drops flat_map]. perm_count.
  - (* OSpareWrite: k values created, all of them visible *)
    unfold sp_spare_write in Hr. destruct (get_a v st) as [av|] eqn:Hg; [|discriminate]. injection Hr as <-.
    cbn [ok_res s_nx s_st s_evs leak_of drops flat_map].
    replace (nx + k) with (nx + N.of_nat (N.to_nat k)) by lia. rewrite (created_add c nx _ Hnx).
    pose proof (vis_get_any st v) as Hv. rewrite Hg in Hv. cbn [slot_xs] in Hv.
    pose proof (vis_set_any st v (Some (with_xs av (a_xs av ++ next_ids c nx (N.to_nat k))))) as H1.
    cbn [slot_xs with_xs a_xs] in H1. perm_count.
  - (* ODownWrong *)
    destruct (sp_take c st nx v k (match k with TPop => 0 | _ => idx end) KDrop) as [r0|] eqn:E0; [|discriminate].
    assert (Hp : k = TPop -> (match k with TPop => 0 | _ => idx end) = 0) by (intros ->; reflexivity).
    pose proof (take_own st nx v k _ KDrop r0 D L Hp Hnx E0 Hinv) as H.
    assert (Hl : match get_a v st with
                 | Some a =>
                     match k with
                     | TPop => if (length (a_xs a) =? 0)%nat then [] else sink_leak c st nx v a (length (a_xs a) - 1) KDrop
                     | _ => if match k with TPop => 0 | _ => idx end <? N.of_nat (length (a_xs a))
                            then sink_leak c st nx v a (N.to_nat match k with TPop => 0 | _ => idx end) KDrop else []
                     end
                 | None => []
                 end = []).
    { destruct (get_a v st) as [a0|]; [|reflexivity]. destruct k; cbn [sink_leak];
        repeat match goal with |- context [if ?x then _ else _] => destruct x end; reflexivity. }
    rewrite Hl in H.
    injection Hr as <-. cbn [leak_of].
    destruct (s_out r0 =? 0); cbn [s_nx s_st s_evs]; exact H.
  - (* OWrite *)
    exact (write_own st nx v idx r D L Hnx Hr Hinv).
  - (* OSwap *)
    destruct (pr =? 0); [exact (swap_own st nx v1 i v2 j r D L Hr Hinv)|exact (swap_temp_own st nx v1 i v2 j r D L Hr Hinv)].
  - (* OLazyDown: the clone is created and destroyed by the caller *)
    unfold sp_lazy_down in Hr. destruct (get_a v st) as [av|]; [|discriminate].
    destruct (idx <? N.of_nat (length (a_xs av))); injection Hr as <-;
      cbn [ok_res panic_res s_nx s_st s_evs leak_of]; [|cbn [drops flat_map]; perm_count].
    rewrite (created_succ c nx Hnx). unfold drop_ev. rewrite Hdg. cbn [drops flat_map app]. perm_count.
Qed.

Lemma take_drop_own_f st nx v tk idx k r D L :
  (tk = TPop -> idx = 0) -> 1 <= nx ->
  sp_take_drop_f c st nx v tk idx k = Some r ->
  Permutation (created c nx) (vis st ++ D ++ L) ->
  Permutation (created c (s_nx r)) (vis (s_st r) ++ (D ++ drops (s_evs r)) ++ (L ++ take_drop_leak c st v tk idx k)).
Proof.
  intros Hpop Hnx Hr Hinv. unfold sp_take_drop_f in Hr. unfold take_drop_leak.
  destruct (sp_take c st nx v tk idx KDrop) as [r0|] eqn:E0; [|discriminate].
  pose proof (take_own st nx v tk idx KDrop r0 D L Hpop Hnx E0 Hinv) as H0.
  destruct (get_a v st) as [a|] eqn:Hg; [|unfold sp_take in E0; rewrite Hg in E0; discriminate].
  set (xs := a_xs a) in *. cbv zeta.
  assert (Hl0 : match tk with
                | TPop => if (length xs =? 0)%nat then [] else sink_leak c st nx v a (length xs - 1) KDrop
                | _ => if idx <? N.of_nat (length xs) then sink_leak c st nx v a (N.to_nat idx) KDrop else []
                end = []).
  { destruct tk; cbn [sink_leak]; repeat match goal with |- context [if ?x then _ else _] => destruct x end; reflexivity. }
  rewrite Hl0 in H0.
  (* does the element exist? then s_out r0 = 0 *)
  unfold sp_take in E0. rewrite Hg in E0. fold xs in E0. cbv zeta in E0.
  set (i := match tk with TPop => (length xs - 1)%nat | _ => N.to_nat idx end) in *.
  set (ex := match tk with TPop => negb (length xs =? 0)%nat | _ => idx <? N.of_nat (length xs) end).
  assert (Hex : (s_out r0 =? 0) = ex /\ (ex = true -> (i < length xs)%nat)).
  { unfold ex, i. destruct tk.
    - destruct (Nat.eqb_spec (length xs) 0) as [Hz|Hnz]; cbn [negb].
      + injection E0 as <-. split; [reflexivity|discriminate].
      + cbn [sp_sink] in E0. unfold sp_take_elem in E0. cbv zeta in E0. injection E0 as <-. split; [reflexivity|lia].
    - destruct (N.ltb_spec idx (N.of_nat (length xs))) as [Hlt|Hge].
      + cbn [sp_sink] in E0. unfold sp_take_elem in E0. cbv zeta in E0. injection E0 as <-. split; [reflexivity|lia].
      + injection E0 as <-. split; [reflexivity|discriminate].
    - destruct (N.ltb_spec idx (N.of_nat (length xs))) as [Hlt|Hge].
      + cbn [sp_sink] in E0. unfold sp_take_elem in E0. cbv zeta in E0. injection E0 as <-. split; [reflexivity|lia].
      + injection E0 as <-. split; [reflexivity|discriminate]. }
  destruct Hex as [Hex1 Hex2]. rewrite Hex1 in Hr.
  destruct (c_dg c && (k =? 0) && ex) eqn:Ecase; [|injection Hr as <-; exact H0].
  injection Hr as <-. cbn [panic_res s_nx s_st s_evs drops flat_map app].
  apply andb_prop in Ecase. destruct Ecase as [_ Hext]. specialize (Hex2 Hext).
  pose proof (vis_get_any st v) as Hv. rewrite Hg in Hv. cbn [slot_xs] in Hv. fold xs in Hv.
  pose proof (vis_set_any st v (Some (with_xs a (firstn i xs)))) as H1. cbn [slot_xs with_xs a_xs] in H1.
  assert (Hx : Permutation xs (firstn i xs ++ nth i xs 0 :: skipn (S i) xs)).
  { rewrite <- (firstn_skipn i xs) at 1. rewrite (skipn_nth_cons 0 xs i Hex2). reflexivity. }
  perm_count.
Qed.

Lemma put_value_not_user (a : avec) idx t p : put_value c a idx t = inr p -> (panic_code p =? 8) = false.
Proof.
  unfold put_value. destruct idx as [i|].
  - destruct (N.of_nat (length (a_xs a)) <? i); [intros H; injection H as <-; reflexivity|].
    destruct (full c a); [intros H; injection H as <-; reflexivity|discriminate].
  - destruct (full c a); [intros H; injection H as <-; reflexivity|discriminate].
Qed.
Lemma clone_panic_own st v a idx D L X :
  get_a v st = Some a ->
  Permutation X (vis st ++ D ++ L) ->
  Permutation X (vis (after_clone_panic st v a idx) ++ D ++ (L ++ match idx with None => [] | Some i => skipn (N.to_nat i) (a_xs a) end)).
Proof.
  intros Hg Hinv. destruct idx as [i|]; cbn [after_clone_panic].
  - pose proof (vis_get_any st v) as Hv. rewrite Hg in Hv. cbn [slot_xs] in Hv.
    pose proof (vis_set_any st v (Some (with_xs a (firstn (N.to_nat i) (a_xs a))))) as H1. cbn [slot_xs with_xs a_xs] in H1.
    assert (Hx : Permutation (a_xs a) (firstn (N.to_nat i) (a_xs a) ++ skipn (N.to_nat i) (a_xs a))) by (rewrite firstn_skipn; reflexivity).
    perm_count.
  - perm_count.
Qed.
Lemma offer_lazy_own_f st nx v idx src sidx r D L :
  sp_offer_lazy_f c st nx v idx src sidx = Some r ->
  Permutation (created c nx) (vis st ++ D ++ L) ->
  Permutation (created c (s_nx r))
    (vis (s_st r) ++ (D ++ drops (s_evs r)) ++
     (L ++ match idx, get_a v st with
           | Some i, Some a => if s_pk r =? 8 then skipn (N.to_nat i) (a_xs a) else []
           | _, _ => []
           end)).
Proof.
  intros Hr Hinv. unfold sp_offer_lazy_f in Hr.
  destruct (Nat.eqb src v); [discriminate|].
  destruct (get_a v st) as [a|] eqn:Hg; [|discriminate].
  destruct (get_a src st) as [b|]; [|discriminate].
  assert (Hsame : forall p, (panic_code p =? 8) = false ->
            Permutation (created c nx) (vis st ++ (D ++ drops []) ++ (L ++ match idx with Some i => if panic_code p =? 8 then skipn (N.to_nat i) (a_xs a) else [] | None => [] end))).
  { intros p Hp. rewrite Hp. cbn [drops flat_map]. destruct idx; perm_count. }
  destruct (sidx <? N.of_nat (length (a_xs b))).
  - destruct (put_value c a idx (tok c nx)) as [xs'|p] eqn:Ep; injection Hr as <-; cbn [panic_res s_nx s_st s_evs s_pk].
    + cbn [panic_code N.eqb Pos.eqb drops flat_map]. rewrite app_nil_r.
      pose proof (clone_panic_own st v a idx D L _ Hg Hinv) as H. destruct idx; exact H.
    + exact (Hsame p (put_value_not_user a idx _ p Ep)).
  - injection Hr as <-. cbn [panic_res s_nx s_st s_evs s_pk]. exact (Hsame PIndex eq_refl).
Qed.
Lemma offer_userlazy_own_f st nx v idx r D L :
  1 <= nx -> sp_offer_userlazy_f c st nx v idx = Some r ->
  Permutation (created c nx) (vis st ++ D ++ L) ->
  Permutation (created c (s_nx r))
    (vis (s_st r) ++ (D ++ drops (s_evs r)) ++
     (L ++ match idx, get_a v st with
           | Some i, Some a => if s_pk r =? 8 then skipn (N.to_nat i) (a_xs a) else []
           | _, _ => []
           end)).
Proof.
  intros Hnx Hr Hinv. unfold sp_offer_userlazy_f in Hr.
  destruct (get_a v st) as [a|] eqn:Hg; [|discriminate]. cbv zeta in Hr.
  assert (Hinv1 : Permutation (created c (nx + 1)) (vis st ++ (D ++ [tok c nx]) ++ L)).
  { rewrite (created_succ c nx Hnx). perm_count. }
  destruct (put_value c a idx (tok c (nx + 1))) as [xs'|p] eqn:Ep; injection Hr as <-;
    cbn [panic_res s_nx s_st s_evs s_pk]; rewrite (drops_drop_ev c _ Hdg).
  - cbn [panic_code N.eqb Pos.eqb].
    pose proof (clone_panic_own st v a idx (D ++ [tok c nx]) L _ Hg Hinv1) as H. destruct idx; exact H.
  - rewrite (put_value_not_user a idx _ p Ep). destruct idx; [|exact (eq_ind _ (fun l => Permutation _ (vis st ++ (D ++ [tok c nx]) ++ l)) Hinv1 _ (eq_sym (app_nil_r L)))].
    rewrite app_nil_r. exact Hinv1.
Qed.

Theorem step_own_f st nx fuse o r D L :
  1 <= nx -> spec_step_f c st nx fuse o = Some r ->
  Permutation (created c nx) (vis st ++ D ++ L) ->
  Permutation (created c (s_nx r)) (vis (s_st r) ++ (D ++ drops (s_evs r)) ++ (L ++ leak_of_f c st nx fuse o)).
Proof.
  intros Hnx Hr Hinv. destruct fuse as [k|]; cbn [spec_step_f leak_of_f] in *.
  2:{ exact (step_own st nx o r D L Hnx Hr Hinv). }
  assert (Hclear : forall v r0, sp_clear_f c st nx v k = Some r0 -> forall st',
            (forall x, cnt x (vis st') = cnt x (vis (set_a v None st))) ->
            Permutation (created c (s_nx r0))
              (vis st' ++ (D ++ drops (s_evs r0)) ++ (L ++ match get_a v st with
                 | Some a => if c_dg c && (k <? N.of_nat (length (a_xs a))) then skipn (S (N.to_nat k)) (a_xs a) else []
                 | None => [] end))).
  { intros v r0 Hr0 st' Hst'.
    unfold sp_clear_f in Hr0. destruct (get_a v st) as [av|] eqn:Hg; [|discriminate]. cbv zeta in Hr0.
    pose proof (vis_get_any st v) as Hv. rewrite Hg in Hv. cbn [slot_xs] in Hv.
    assert (Hx : Permutation (a_xs av) (firstn (S (N.to_nat k)) (a_xs av) ++ skipn (S (N.to_nat k)) (a_xs av)))
      by (rewrite firstn_skipn; reflexivity).
    set (fk := firstn (S (N.to_nat k)) (a_xs av)) in *. set (tl := skipn (S (N.to_nat k)) (a_xs av)) in *.
    rewrite Hdg in *. cbn [andb] in *.
    destruct (k <? N.of_nat (length (a_xs av))); injection Hr0 as <-; cbn [ok_res panic_res s_nx s_st s_evs]; rewrite drops_map;
      apply perm_cnt; intros x; specialize (Hst' x); count_at x; lia. }
  destruct o; try discriminate.
  - (* ODropVec *)
    destruct (sp_clear_f c st nx v k) as [r0|] eqn:E0; [|discriminate]. injection Hr as <-. cbn [s_nx s_st s_evs].
    apply (Hclear v r0 E0). intros x. reflexivity.
  - (* OPush *) destruct a; [|discriminate]. destruct s; try discriminate; destruct (k =? 0); try discriminate.
    + exact (offer_lazy_own_f st nx v None vid idx r D L Hr Hinv).
    + exact (offer_userlazy_own_f st nx v None r D L Hnx Hr Hinv).
  - (* OInsert *) destruct a; [|discriminate]. destruct s; try discriminate; destruct (k =? 0) eqn:Ek; try discriminate.
    + pose proof (offer_lazy_own_f st nx v (Some idx) vid idx0 r D L Hr Hinv) as H. rewrite Hr. exact H.
    + pose proof (offer_userlazy_own_f st nx v (Some idx) r D L Hnx Hr Hinv) as H. rewrite Hr. exact H.
  - destruct k0; try discriminate. exact (take_drop_own_f st nx v TPop 0 k r D L (fun _ => eq_refl) Hnx Hr Hinv).
  - destruct k0; try discriminate. exact (take_drop_own_f st nx v TRemove idx k r D L ltac:(discriminate) Hnx Hr Hinv).
  - destruct k0; try discriminate. exact (take_drop_own_f st nx v TSwapRemove idx k r D L ltac:(discriminate) Hnx Hr Hinv).
  - (* OClear *)
    pose proof (Hclear v r Hr (s_st r)) as H. apply H. intros x.
    unfold sp_clear_f in Hr. destruct (get_a v st) as [av|]; [|discriminate]. cbv zeta in Hr.
    pose proof (vis_set_any st v (Some (with_xs av []))) as H1. cbn [slot_xs with_xs a_xs app] in H1.
    rewrite perm_cnt in H1. specialize (H1 x).
    destruct (c_dg c && (k <? N.of_nat (length (a_xs av)))); injection Hr as <-; cbn [ok_res panic_res s_st]; exact H1.
  - (* ODrain *)
    destruct pat; [|discriminate]. destruct f; [|discriminate].
    unfold sp_drain_f in Hr. destruct (get_a v st) as [av|] eqn:Hg; [|discriminate]. cbv zeta in Hr.
    set (xs := a_xs av) in *.
    destruct (range_of_bounds usize_max (N.of_nat (length xs)) (to_sb sb) (to_sb eb)) as [[sN eN]|] eqn:Erb.
    + assert (Hb : sN <= eN /\ eN <= N.of_nat (length xs)).
      { unfold range_of_bounds in Erb.
        repeat match type of Erb with
        | context [match ?x with _ => _ end] => destruct x eqn:?; try discriminate
        | context [if ?x then _ else _] => destruct x eqn:?; try discriminate
        end.
        injection Erb as <- <-. match goal with H : (_ && _)%bool = true |- _ => apply andb_prop in H; destruct H as [H1 H2] end.
        apply N.leb_le in H1, H2. lia. }
      cbv zeta. set (s := N.to_nat sN) in *. set (e := N.to_nat eN) in *.
      assert (Hse : (s <= e)%nat) by lia. assert (Hel : (e <= length xs)%nat) by lia.
      set (range := firstn (e - s) (skipn s xs)) in *.
      assert (Hrg : Permutation range (firstn (S (N.to_nat k)) range ++ skipn (S (N.to_nat k)) range))
        by (rewrite firstn_skipn; reflexivity).
      set (fk := firstn (S (N.to_nat k)) range) in *. set (rk := skipn (S (N.to_nat k)) range) in *.
      rewrite Hdg in *. cbn [andb] in *.
      destruct (k <? N.of_nat (e - s)) eqn:Ek.
      * injection Hr as <-. cbn [panic_res s_nx s_st s_evs]. rewrite drops_map.
        pose proof (vis_get_any st v) as Hv. rewrite Hg in Hv. cbn [slot_xs] in Hv. fold xs in Hv.
        pose proof (vis_set_any st v (Some (with_xs av (firstn s xs)))) as H1. cbn [slot_xs with_xs a_xs] in H1.
        assert (Hx : Permutation xs (firstn s xs ++ range ++ skipn e xs)).
        { rewrite <- (firstn_skipn s xs) at 1. apply Permutation_app_head.
          rewrite (skipn_split_range xs s e Hse) at 1. reflexivity. }
        destruct a; perm_count.
      * pose proof (drain_own st nx v sb eb [] FinDrop r D L Hr Hinv) as H. cbn [leak_of sp_walk] in H.
        rewrite Hg in H. cbv zeta in H. fold xs in H. rewrite Erb in H. exact H.
    + injection Hr as <-. cbn [panic_res s_nx s_st s_evs drops flat_map]. perm_count.
  - (* OSplice *)
    destruct pat; [|discriminate]. destruct f; [|discriminate].
    unfold sp_splice_f in Hr.
    destruct wrong_at; [destruct rk; discriminate|].
    assert (Hr' : (if negb (claimed =? n) then None else
                   match get_a v st with None => None | Some av => _ end) = Some r) by (destruct rk; try discriminate; exact Hr).
    clear Hr. rename Hr' into Hr. destruct (negb (claimed =? n)); [discriminate|].
    destruct (get_a v st) as [av|] eqn:Hg; [|discriminate]. cbv zeta in Hr.
    set (xs := a_xs av) in *. set (ts := next_ids c nx (N.to_nat n)) in *.
    assert (Hcr : created c (nx + n) = created c nx ++ ts).
    { replace (nx + n) with (nx + N.of_nat (N.to_nat n)) by lia. apply created_add. exact Hnx. }
    destruct (range_of_bounds usize_max (N.of_nat (length xs)) (to_sb sb) (to_sb eb)) as [[sN eN]|] eqn:Erb; [|discriminate].
    assert (Hb : sN <= eN /\ eN <= N.of_nat (length xs)).
    { unfold range_of_bounds in Erb.
      repeat match type of Erb with
      | context [match ?x with _ => _ end] => destruct x eqn:?; try discriminate
      | context [if ?x then _ else _] => destruct x eqn:?; try discriminate
      end.
      injection Erb as <- <-. match goal with H : (_ && _)%bool = true |- _ => apply andb_prop in H; destruct H as [H1 H2] end.
      apply N.leb_le in H1, H2. lia. }
    cbv zeta. set (s := N.to_nat sN) in *. set (e := N.to_nat eN) in *.
    assert (Hse : (s <= e)%nat) by lia. assert (Hel : (e <= length xs)%nat) by lia.
    set (range := firstn (e - s) (skipn s xs)) in *.
    set (m := if c_dg c then N.of_nat (e - s) else 0) in *.
    assert (Hrg : Permutation range (firstn (S (N.to_nat k)) range ++ skipn (S (N.to_nat k)) range))
      by (rewrite firstn_skipn; reflexivity).
    set (fk := firstn (S (N.to_nat k)) range) in *. set (rk0 := skipn (S (N.to_nat k)) range) in *.
    assert (Hts : Permutation ts (firstn (N.to_nat (k - m)) ts ++ skipn (N.to_nat (k - m)) ts))
      by (rewrite firstn_skipn; reflexivity).
    set (ft := firstn (N.to_nat (k - m)) ts) in *. set (st0 := skipn (N.to_nat (k - m)) ts) in *.
    destruct ((usize_max <? N.of_nat s + n + N.of_nat (length xs - e))
              || match acap c (a_bk av) with Some cap => cap <? N.of_nat s + n + N.of_nat (length xs - e) | None => false end); [discriminate|].
    pose proof (vis_get_any st v) as Hv. rewrite Hg in Hv. cbn [slot_xs] in Hv. fold xs in Hv.
    pose proof (vis_set_any st v (Some (with_xs av (firstn s xs)))) as H1. cbn [slot_xs with_xs a_xs] in H1.
    assert (Hx : Permutation xs (firstn s xs ++ range ++ skipn e xs)).
    { rewrite <- (firstn_skipn s xs) at 1. apply Permutation_app_head.
      rewrite (skipn_split_range xs s e Hse) at 1. reflexivity. }
    rewrite Hdg in *. cbn [andb] in *.
    destruct (k <? N.of_nat (e - s)) eqn:Ek.
    + injection Hr as <-. cbn [panic_res s_nx s_st s_evs]. rewrite Hcr. rewrite drops_app, !drops_map.
      destruct a; perm_count.
    + destruct (k - m <? n) eqn:Ef; injection Hr as <-; cbn [ok_res panic_res s_nx s_st s_evs]; rewrite Hcr.
      * rewrite drops_app, drops_map. change (drops (ENext :: repeat ENext (N.to_nat (k - m)) ++ map EDrop st0)) with (drops (repeat ENext (N.to_nat (k - m)) ++ map EDrop st0)).
        rewrite drops_app, drops_map, drops_nexts. perm_count.
      * pose proof (vis_set_any st v (Some (with_xs av (VecSpec.sp_splice s e ts xs)))) as H2.
        cbn [slot_xs with_xs a_xs] in H2. unfold VecSpec.sp_splice in *.
        rewrite drops_app, drops_map, drops_nexts. perm_count.
  - (* OClone: the clones made so far are leaked *)
    unfold sp_clone_f in Hr. destruct (Nat.eqb dst v); [discriminate|]. destruct (get_a v st) as [av|]; [|discriminate].
    cbv zeta in Hr. destruct (k <? N.of_nat (length (a_xs av))); [|discriminate]. injection Hr as <-.
    cbn [panic_res s_nx s_st s_evs].
    replace (nx + k) with (nx + N.of_nat (N.to_nat k)) by lia. rewrite (created_add c nx _ Hnx).
    assert (Hnd : forall l, drops (map (fun p : N * N => EClone (fst p) (snd p)) l) = []).
    { induction l as [|p l IH]; [reflexivity|exact IH]. }
    rewrite Hnd. perm_count.
Qed.
End StepOwn.

(** ** Whole histories *)
Definition end_of (st : astate) (nx : N) (rs : list sres) : astate * N :=
  fold_left (fun _ r => (s_st r, s_nx r)) rs (st, nx).
Definition hist_drops (rs : list sres) : list N := flat_map (fun r => drops (s_evs r)) rs.
Fixpoint hist_leaks (c : cfg) (st : astate) (nx : N) (ops : list op) : list N :=
  match ops with
  | [] => []
  | o :: r => match spec_step c st nx o with
              | Some x => leak_of c st nx o ++ hist_leaks c (s_st x) (s_nx x) r
              | None => []
              end
  end.

Lemma spec_nx_mono c st nx o r : spec_step c st nx o = Some r -> nx <= s_nx r.
Proof. apply WorldProofs.spec_nx_ge. Qed.

Theorem history_own c ops : forall st nx rs D L,
  c_dg c = true -> 1 <= nx -> spec_run c st nx ops = Some rs ->
  Permutation (created c nx) (vis st ++ D ++ L) ->
  Permutation (created c (snd (end_of st nx rs)))
              (vis (fst (end_of st nx rs)) ++ (D ++ hist_drops rs) ++ (L ++ hist_leaks c st nx ops)).
Proof.
  induction ops as [|o ops IH]; intros st nx rs D L Hdg Hnx Hs Hinv; cbn [spec_run hist_leaks] in *.
  - injection Hs as <-. unfold end_of, hist_drops. cbn [fold_left flat_map fst snd]. rewrite !app_nil_r. exact Hinv.
  - destruct (spec_step c st nx o) as [x|] eqn:Ex; [|discriminate].
    destruct (spec_run c (s_st x) (s_nx x) ops) as [l|] eqn:El; [|discriminate]. injection Hs as <-.
    pose proof (step_own c Hdg st nx o x D L Hnx Ex Hinv) as H1.
    pose proof (spec_nx_mono _ _ _ _ _ Ex) as Hm.
    specialize (IH (s_st x) (s_nx x) l (D ++ drops (s_evs x)) (L ++ leak_of c st nx o) Hdg ltac:(lia) El H1).
    unfold end_of in *. cbn [fold_left]. unfold hist_drops in *. cbn [flat_map].
    rewrite !app_assoc in *. exact IH.
Qed.

(** from the empty world: everything ever created is visible, destroyed or leaked - exactly once *)
Corollary history_own_init c ops rs :
  c_dg c = true -> spec_run c [] 1 ops = Some rs ->
  Permutation (created c (snd (end_of [] 1 rs)))
              (vis (fst (end_of [] 1 rs)) ++ hist_drops rs ++ hist_leaks c [] 1 ops).
Proof.
  intros Hdg Hs. apply (history_own c ops [] 1 rs [] [] Hdg ltac:(lia) Hs). reflexivity.
Qed.

(** identities of a type that is not zero-sized are pairwise distinct *)
Lemma ids_nodup c from n : c_sz c <> 0 -> NoDup (ids c from n) /\ forall x, In x (ids c from n) -> from <= x.
Proof.
  intros Hz. revert from. induction n as [|n IH]; intros from; cbn [ids].
  - split; [constructor|intros x []].
  - destruct (IH (from + 1)) as [Hn Hl].
    assert (Ht : tok c from = from) by (unfold tok; destruct (N.eqb_spec (c_sz c) 0); [contradiction|reflexivity]).
    rewrite Ht. split.
    + constructor; [|exact Hn]. intros Hin. specialize (Hl _ Hin). lia.
    + intros x [<-|Hin]; [lia|]. specialize (Hl _ Hin). lia.
Qed.

(** ... so (C03): nothing is destroyed twice, nothing destroyed or leaked is still visible, nothing is
    visible in two places - after EVERY history *)
Corollary history_exactly_once c ops rs :
  c_dg c = true -> c_sz c <> 0 -> spec_run c [] 1 ops = Some rs ->
  NoDup (vis (fst (end_of [] 1 rs)) ++ hist_drops rs ++ hist_leaks c [] 1 ops).
Proof.
  intros Hdg Hz Hs. eapply Permutation_NoDup; [apply (history_own_init c ops rs Hdg Hs)|].
  apply ids_nodup. exact Hz.
Qed.
Corollary history_no_double_drop c ops rs :
  c_dg c = true -> c_sz c <> 0 -> spec_run c [] 1 ops = Some rs ->
  NoDup (hist_drops rs) /\ NoDup (vis (fst (end_of [] 1 rs))) /\
  forall t, In t (hist_drops rs) -> ~ In t (vis (fst (end_of [] 1 rs))).
Proof.
  intros Hdg Hz Hs. pose proof (history_exactly_once c ops rs Hdg Hz Hs) as H.
  apply NoDup_app_iff in H. destruct H as (Hv & Hdl & Hdisj).
  apply NoDup_app_iff in Hdl. destruct Hdl as (Hd & _ & _).
  split; [exact Hd|]. split; [exact Hv|]. intros t Ht Hin. apply (Hdisj t Hin). apply in_or_app. left. exact Ht.
Qed.
(** when every vector is gone and nothing was leaked, everything created has been destroyed; for
    zero-sized types this is the accounting by count *)
Corollary history_all_destroyed c ops rs :
  c_dg c = true -> spec_run c [] 1 ops = Some rs ->
  vis (fst (end_of [] 1 rs)) = [] -> hist_leaks c [] 1 ops = [] ->
  Permutation (created c (snd (end_of [] 1 rs))) (hist_drops rs) /\
  length (hist_drops rs) = N.to_nat (snd (end_of [] 1 rs) - 1).
Proof.
  intros Hdg Hs Hv Hl. pose proof (history_own_init c ops rs Hdg Hs) as H. rewrite Hv, Hl, app_nil_r in H.
  cbn [app] in H. split; [exact H|]. rewrite <- (Permutation_length H). unfold created.
  generalize (N.to_nat (snd (end_of [] 1 rs) - 1)) as n. generalize 1 as from.
  intros from n. revert from. induction n as [|n IH]; intros from; cbn [ids length]; [reflexivity|]. f_equal. apply IH.
Qed.

(** ** whole histories whose steps may carry a fuse *)
Definition end_of_f := end_of.
Fixpoint hist_leaks_f (c : cfg) (st : astate) (nx : N) (ops : list (option N * op)) : list N :=
  match ops with
  | [] => []
  | (f, o) :: r => match spec_step_f c st nx f o with
                   | Some x => leak_of_f c st nx f o ++ hist_leaks_f c (s_st x) (s_nx x) r
                   | None => []
                   end
  end.
Lemma spec_f_nx_mono c st nx f o r : spec_step_f c st nx f o = Some r -> nx <= s_nx r.
Proof.
  destruct f as [k|]; [|apply spec_nx_mono]. intros H. exact (proj1 (WorldFused.spec_f_small _ _ _ _ _ _ H)).
Qed.
Theorem history_own_f c ops : forall st nx rs D L,
  c_dg c = true -> 1 <= nx -> spec_run_f c st nx ops = Some rs ->
  Permutation (created c nx) (vis st ++ D ++ L) ->
  Permutation (created c (snd (end_of st nx rs)))
              (vis (fst (end_of st nx rs)) ++ (D ++ hist_drops rs) ++ (L ++ hist_leaks_f c st nx ops)).
Proof.
  induction ops as [|[f o] ops IH]; intros st nx rs D L Hdg Hnx Hs Hinv; cbn [spec_run_f hist_leaks_f] in *.
  - injection Hs as <-. unfold end_of, hist_drops. cbn [fold_left flat_map fst snd]. rewrite !app_nil_r. exact Hinv.
  - destruct (spec_step_f c st nx f o) as [x|] eqn:Ex; [|discriminate].
    destruct (spec_run_f c (s_st x) (s_nx x) ops) as [l|] eqn:El; [|discriminate]. injection Hs as <-.
    pose proof (step_own_f c Hdg st nx f o x D L Hnx Ex Hinv) as H1.
    pose proof (spec_f_nx_mono _ _ _ _ _ _ Ex) as Hm.
    specialize (IH (s_st x) (s_nx x) l (D ++ drops (s_evs x)) (L ++ leak_of_f c st nx f o) Hdg ltac:(lia) El H1).
    unfold end_of in *. cbn [fold_left]. unfold hist_drops in *. cbn [flat_map].
    rewrite !app_assoc in *. exact IH.
Qed.
(** ... so, also when destructors panic at arbitrary points of a history: nothing is destroyed twice, nothing
    destroyed or leaked is still visible, nothing is visible in two places (C06, C03) *)
Corollary history_exactly_once_f c ops rs :
  c_dg c = true -> c_sz c <> 0 -> spec_run_f c [] 1 ops = Some rs ->
  NoDup (vis (fst (end_of [] 1 rs)) ++ hist_drops rs ++ hist_leaks_f c [] 1 ops).
Proof.
  intros Hdg Hz Hs. eapply Permutation_NoDup.
  - apply (history_own_f c ops [] 1 rs [] [] Hdg ltac:(lia) Hs). reflexivity.
  - apply ids_nodup. exact Hz.
Qed.
