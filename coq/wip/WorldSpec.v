(** * Specification of whole histories: a world of std::vec::Vec-like lists.

    The abstract state is a list of optional vectors, each a backend kind plus the LIST of its
    element tokens; one step of a case script ([Interp.op]) is given its meaning directly on
    lists with the operations of [VecSpec] - no memory, no capacity arithmetic beyond "a
    fixed-capacity backend is full", no pointers.  [AV.Proofs.WorldProofs] proves that the
    byte-level machine ([Interp.run_step]) refines this for every history.

    Fragment covered ([None] = outside): new, push, insert (every fresh-value source kind, both
    API paths), pop / remove / swap_remove with the handle dropped, downcast, forgotten, or moved
    into ANOTHER vector by push or insert, clear, get, at, vector drop, reserve / reserve_exact /
    shrink_to_fit / shrink_to. *)
From AV.Model Require Import Base Bytes Vec Ops Interp.
From AV.Spec Require Import VecSpec.

Record avec := { a_bk : bkind; a_xs : list N }.
Definition astate := list (option avec).

Record sres := {
  s_out : N;               (* 0 ok, 1 None, 2 panic *)
  s_pk : N;                (* panic code *)
  s_ret : list N;          (* returned / removed values *)
  s_evs : list event;      (* user-code events of the step, in program order *)
  s_st : astate;
  s_nx : N                 (* next fresh identity *)
}.

Definition get_a (v : nat) (st : astate) : option avec :=
  match nth_error st v with Some (Some a) => Some a | _ => None end.
Definition set_a (v : nat) (o : option avec) (st : astate) : astate := set_nth v o None st.

(** capacity of a fixed-capacity backend ([None]: grows on demand) *)
Definition acap (c : cfg) (bk : bkind) : option N :=
  match bk with
  | BStack size => Some (if c_sz c =? 0 then usize_max else size / c_sz c)
  | BStackN n _ => Some n
  | BEmpty => Some 0
  | BHeap | BReloc _ => None
  end.
Definition full (c : cfg) (a : avec) : bool :=
  match acap c (a_bk a) with
  | Some cap => cap <=? N.of_nat (length (a_xs a))
  | None => false
  end.

(** identity of the next fresh value (zero-sized values are all the unit token 0) *)
Definition tok (c : cfg) (nx : N) : N := if c_sz c =? 0 then 0 else nx.
(** the destructor of value [t] runs (reported only by element types with drop glue) *)
Definition drop_ev (c : cfg) (t : N) : list event := if c_dg c then [EDrop t] else [].

Definition fresh_src (s : src) : bool :=
  match s with SWrap | SBox | SRaw | SRawT | SRawS => true | _ => false end.

Definition ok_res (ret : list N) (evs : list event) (st : astate) (nx : N) : sres :=
  {| s_out := 0; s_pk := 0; s_ret := ret; s_evs := evs; s_st := st; s_nx := nx |}.
Definition none_res (st : astate) (nx : N) : sres :=
  {| s_out := 1; s_pk := 0; s_ret := []; s_evs := []; s_st := st; s_nx := nx |}.
Definition panic_res (p : panic) (evs : list event) (st : astate) (nx : N) : sres :=
  {| s_out := 2; s_pk := panic_code p; s_ret := []; s_evs := evs; s_st := st; s_nx := nx |}.

(** [Vec::push(t)] ([idx = None]) / [Vec::insert(i, t)] into vector [a]:
    the new contents, or the panic *)
Definition put_value (c : cfg) (a : avec) (idx : option N) (t : N) : list N + panic :=
  match idx with
  | Some i =>
      if N.of_nat (length (a_xs a)) <? i then inr PIndex
      else if full c a then inr PCapacity
      else inl (sp_insert (N.to_nat i) t (a_xs a))
  | None =>
      if full c a then inr PCapacity else inl (sp_push t (a_xs a))
  end.

(** what the vector holds once element [i] has left through a removal handle *)
Definition take_result (k : tkind) (i : nat) (xs : list N) : list N :=
  match k with
  | TPop => removelast xs
  | TRemove => sp_remove i xs
  | TSwapRemove => sp_swap_remove i xs
  end.

Definition with_xs (a : avec) (xs : list N) : avec := {| a_bk := a_bk a; a_xs := xs |}.

(** push / insert of a fresh value: a rejected value is destroyed, once *)
Definition sp_offer (c : cfg) (st : astate) (nx : N) (v : nat) (idx : option N) : option sres :=
  match get_a v st with
  | None => None
  | Some a =>
      let t := tok c nx in
      match put_value c a idx t with
      | inl xs' => Some (ok_res [] [] (set_a v (Some (with_xs a xs')) st) (nx + 1))
      | inr p => Some (panic_res p (drop_ev c t) st (nx + 1))
      end
  end.

(** element [i] replaced by [t] *)
Definition sp_upd (i : nat) (t : N) (xs : list N) : list N := firstn i xs ++ t :: skipn (S i) xs.

(** identities of the [n] values created next *)
Definition next_ids (c : cfg) (nx : N) (n : nat) : list N := map (fun k => tok c (nx + N.of_nat k)) (seq 0 n).

(** element [i] of vector [v] (contents [a]) leaves through a removal handle; [sk] = what is done
    with the handle *)
Definition sp_take_elem (c : cfg) (st : astate) (nx : N) (v : nat) (a : avec) (k : tkind) (i : nat) (sk : sink)
  : option sres :=
  let xs := a_xs a in
  let t := nth i xs 0 in
  let rest := set_a v (Some (with_xs a (take_result k i xs))) st in
  match sk with
  | KDrop => Some (ok_res [] (drop_ev c t) rest nx)
  | KDown => Some (ok_res [t] (drop_ev c t) rest nx)
  | KForget => Some (ok_res [] [] (set_a v (Some (with_xs a (firstn i xs))) st) nx)
  | KPush dst | KIns dst _ =>
      if Nat.eqb dst v then None
      else match get_a dst st with
           | None => None
           | Some b =>
               let di := match sk with KIns _ j => Some j | _ => None end in
               match put_value c b di t with
               | inl ys' => Some (ok_res [] [] (set_a dst (Some (with_xs b ys')) rest) nx)
               | inr p => Some (panic_res p (drop_ev c t) rest nx)
               end
           end
  | _ => None
  end.

(** [n] lazy clones of the value [t] pushed, one after the other, into a vector with contents [b]: each is a new
    value made by one Clone call; a push that finds a fixed capacity exhausted is refused (before anything is
    cloned).  Result: the contents, the events, the next identity, and whether all [n] went in. *)
Fixpoint sp_lazy_pushes (c : cfg) (b : avec) (t : N) (nx : N) (n : nat) : avec * list event * N * bool :=
  match n with
  | O => (b, [], nx, true)
  | S n' =>
      if full c b then (b, [], nx, false)
      else let id := tok c nx in
           let '(b', evs, nx', ok) := sp_lazy_pushes c (with_xs b (sp_push id (a_xs b))) t (nx + 1) n' in
           (b', EClone t id :: evs, nx', ok)
  end.

(** ... and the handle may first be used: [KMut sk]: a new value is written through the handle (the old one
    is handed back and destroyed), [KLazyDown n sk]: n times a lazy clone of it is downcast - a new value each
    time, destroyed at once - before the handle goes to [sk] *)
Fixpoint sp_sink (c : cfg) (st : astate) (nx : N) (v : nat) (a : avec) (k : tkind) (i : nat) (sk : sink)
  : option sres :=
  let t := nth i (a_xs a) 0 in
  match sk with
  | KMut sk' =>
      let a' := with_xs a (sp_upd i (tok c nx) (a_xs a)) in
      match sp_sink c (set_a v (Some a') st) (nx + 1) v a' k i sk' with
      | Some r => Some {| s_out := s_out r; s_pk := s_pk r;
                          s_ret := if s_out r =? 0 then t :: s_ret r else s_ret r;
                          s_evs := drop_ev c t ++ s_evs r; s_st := s_st r; s_nx := s_nx r |}
      | None => None
      end
  | KLazyDown n sk' =>
      let ids := next_ids c nx (N.to_nat n) in
      match sp_sink c st (nx + n) v a k i sk' with
      | Some r => Some {| s_out := s_out r; s_pk := s_pk r;
                          s_ret := if s_out r =? 0 then ids ++ s_ret r else s_ret r;
                          s_evs := flat_map (fun id => EClone t id :: drop_ev c id) ids ++ s_evs r;
                          s_st := s_st r; s_nx := s_nx r |}
      | None => None
      end
  | KLazy n dst sk' =>
      (* n lazy clones of the handle's value go into another vector first; when one of the pushes is refused the
         handle is dropped by the unwinding: the element is destroyed, the vector compacted *)
      if Nat.eqb dst v then None
      else match get_a dst st with
           | None => None
           | Some b =>
               let '(b', evs, nx', ok) := sp_lazy_pushes c b t nx (N.to_nat n) in
               let st1 := set_a dst (Some b') st in
               if ok then
                 match sp_sink c st1 nx' v a k i sk' with
                 | Some r => Some {| s_out := s_out r; s_pk := s_pk r; s_ret := s_ret r;
                                     s_evs := evs ++ s_evs r; s_st := s_st r; s_nx := s_nx r |}
                 | None => None
                 end
               else Some (panic_res PCapacity (evs ++ drop_ev c t)
                                    (set_a v (Some (with_xs a (take_result k i (a_xs a)))) st1) nx')
           end
  | _ => sp_take_elem c st nx v a k i sk
  end.

(** pop / remove / swap_remove and what is done with the handle *)
Definition sp_take (c : cfg) (st : astate) (nx : N) (v : nat) (k : tkind) (idx : N) (sk : sink)
  : option sres :=
  match get_a v st with
  | None => None
  | Some a =>
      let xs := a_xs a in
      let sel : option nat + sres :=
        match k with
        | TPop => if (length xs =? 0)%nat then inr (none_res st nx) else inl (Some (length xs - 1)%nat)
        | _ => if idx <? N.of_nat (length xs) then inl (Some (N.to_nat idx))
               else inr (panic_res PIndex [] st nx)
        end in
      match sel with
      | inr r => Some r      (* no element: nothing is done with a handle *)
      | inl None => None
      | inl (Some i) => sp_sink c st nx v a k i sk
      end
  end.

Definition resizable (bk : bkind) : bool := match bk with BHeap | BReloc _ => true | _ => false end.

(** capacity management ([want = Some n]: reserve / reserve_exact for [n] more elements; [None]: shrink_to_fit /
    shrink_to) never changes the elements; it panics when [len + n] is not representable, exceeds a fixed
    capacity, or needs more bytes than any allocation can have.  [None] result: the call does not type-check on that backend (outside the language). *)
(** the largest request (in bytes) a resizable backend accepts: the heap backend refuses what is no valid [Layout]
    (size overflowing isize when rounded up to the alignment), the harness's relocating backend what its allocator
    cannot serve *)
Definition layout_limit (c : cfg) (bk : bkind) : N :=
  match bk with BReloc _ => alloc_limit | _ => isize_max - (c_al c - 1) end.
Definition sp_capacity (c : cfg) (st : astate) (nx : N) (v : nat) (want : option N) (exact : bool) : option sres :=
  match get_a v st with
  | None => None
  | Some a =>
      match want with
      | Some n =>
          let len := N.of_nat (length (a_xs a)) in
          if usize_max <? len + n then Some (panic_res POverflow [] st nx)
          else match acap c (a_bk a) with
               | None =>
                   (* resizable: a request whose size in bytes is not representable, or no valid layout, panics
                      (and never reaches the allocator); nothing changes *)
                   let bytes := c_sz c * (len + n) in
                   if layout_limit c (a_bk a) <? bytes
                   then Some (panic_res (if usize_max <? bytes then POverflow else PLayout) [] st nx)
                   else Some (ok_res [] [] st nx)
               | Some cap => if len + n <=? cap then Some (ok_res [] [] st nx)
                             else if exact then None else Some (panic_res PCapacity [] st nx)
               end
      | None => if resizable (a_bk a) then Some (ok_res [] [] st nx) else None
      end
  end.

(** ** drain with any consumption pattern *)

(** which panic an invalid range gives: a bound + 1 that is not representable, else start > end or
    end > len *)
Definition bound_overflows (start_side : bool) (b : bound) : bool :=
  match b, start_side with
  | BExcluded i, true => usize_max <? i + 1
  | BIncluded i, false => usize_max <? i + 1
  | _, _ => false
  end.
Definition to_sb (b : bound) : sbound :=
  match b with BUnbounded => SUnbounded | BIncluded i => SIncluded i | BExcluded i => SExcluded i end.
Definition range_panic (sb eb : bound) : panic :=
  if bound_overflows true sb || bound_overflows false eb then POverflow else PRange.

(** the iterator's calls: [(true, k)] = next(), [(false, k)] = next_back(); the yielded value is
    dropped ([KDrop]) or downcast and then dropped ([KDown]); [KSkip]: an item passed over by nth / nth_back /
    skip / step_by - destroyed like a dropped one, never seen by the caller (no report): nth(n) is n such
    calls followed by an ordinary one.  Cursor [i, j).  Result: the report of
    every call (flag, value, size_hint after the call, values handed out), the values destroyed in
    order, the final cursor.  [None]: a sink outside this fragment. *)
Fixpoint sp_walk (xs : list N) (pat : list (bool * sink)) (i j : nat) : option (list N * list N * nat * nat) :=
  match pat with
  | [] => Some ([], [], i, j)
  | (front, sk) :: rest =>
      if (i =? j)%nat then
        match sp_walk xs rest i j with
        | Some (rets, ds, i', j') =>
            Some (match sk with KSkip => rets | _ => 0 :: 0 :: N.of_nat (j - i) :: rets end, ds, i', j')
        | None => None
        end
      else
        let idx := if front then i else (j - 1)%nat in
        let i1 := if front then S i else i in
        let j1 := if front then j else (j - 1)%nat in
        let t := nth idx xs 0 in
        match (match sk with KDrop | KSkip => Some [] | KDown => Some [t] | _ => None end), sp_walk xs rest i1 j1 with
        | Some out, Some (rets, ds, i', j') =>
            Some (match sk with KSkip => rets | _ => 1 :: t :: N.of_nat (j1 - i1) :: out ++ rets end, t :: ds, i', j')
        | _, _ => None
        end
  end.

Definition sp_drain (c : cfg) (st : astate) (nx : N) (v : nat) (sb eb : bound) (pat : list (bool * sink)) (f : fin)
  : option sres :=
  match get_a v st with
  | None => None
  | Some a =>
      let xs := a_xs a in
      match range_of_bounds usize_max (N.of_nat (length xs)) (to_sb sb) (to_sb eb) with
      | None => Some (panic_res (range_panic sb eb) [] st nx)
      | Some (s, e) =>
          let s := N.to_nat s in let e := N.to_nat e in
          match sp_walk xs pat s e with
          | None => None
          | Some (rets, ds, i, j) =>
              let yielded := flat_map (drop_ev c) ds in
              match f with
              | FinDrop =>
                  (* the un-yielded rest of the range is destroyed in order, the tail closes the gap *)
                  Some (ok_res (N.of_nat (e - s) :: rets)
                               (yielded ++ (if c_dg c then map EDrop (firstn (j - i) (skipn i xs)) else []))
                               (set_a v (Some (with_xs a (VecSpec.sp_drain s e xs))) st) nx)
              | FinForget =>
                  (* leaked iterator: the vector keeps the elements in front of the range *)
                  Some (ok_res (N.of_nat (e - s) :: rets) yielded
                               (set_a v (Some (with_xs a (firstn s xs))) st) nx)
              end
          end
      end
  end.

(** ** drain whose items are also moved into other vectors or forgotten

    A yielded item may be pushed / inserted into ANOTHER vector ([KPush] / [KIns]: the very value moves, nothing is
    created or destroyed; a refused offer destroys it once and unwinds: the iterator is dropped where it stands) or
    leaked ([KForget]).  The state of the other vectors therefore changes while the iterator is alive. *)
Inductive wres :=
| WDone (rets : list N) (evs : list event) (i j : nat) (st : astate) (lost : list N) (nx : N)
| WStop (p : panic) (evs : list event) (i j : nat) (st : astate) (lost : list N) (nx : N).

(** one item with value [t]: what the caller sees, the events, the other vectors, the values leaked and the next
    identity - or the panic.  Before the item goes anywhere lazy clones of it may be downcast ([KLazyDown]: a new
    value each time, destroyed by the caller) or pushed into another vector ([KLazy]; a refused push unwinds: the
    item is destroyed, the clones already pushed stay). *)
Fixpoint sp_item (c : cfg) (v : nat) (st : astate) (nx : N) (t : N) (sk : sink)
  : option ((list N * list event * astate * list N * N) + (panic * list event * astate * N)) :=
  match sk with
  | KDrop | KSkip => Some (inl ([], drop_ev c t, st, [], nx))
  | KDown => Some (inl ([t], drop_ev c t, st, [], nx))
  | KForget => Some (inl ([], [], st, [t], nx))
  | KPush dst | KIns dst _ =>
      if Nat.eqb dst v then None
      else match get_a dst st with
           | None => None
           | Some b =>
               let di := match sk with KIns _ j => Some j | _ => None end in
               match put_value c b di t with
               | inl ys' => Some (inl ([], [], set_a dst (Some (with_xs b ys')) st, [], nx))
               | inr p => Some (inr (p, drop_ev c t, st, nx))
               end
           end
  | KLazyDown n sk' =>
      let ids := next_ids c nx (N.to_nat n) in
      let cl := flat_map (fun id => EClone t id :: drop_ev c id) ids in
      match sp_item c v st (nx + n) t sk' with
      | Some (inl (out, evs, st1, lost, nx1)) => Some (inl (ids ++ out, cl ++ evs, st1, lost, nx1))
      | Some (inr (p, evs, st1, nx1)) => Some (inr (p, cl ++ evs, st1, nx1))
      | None => None
      end
  | KLazy n dst sk' =>
      if Nat.eqb dst v then None
      else match get_a dst st with
           | None => None
           | Some b =>
               let '(b', evs, nx', ok) := sp_lazy_pushes c b t nx (N.to_nat n) in
               let st1 := set_a dst (Some b') st in
               if ok then
                 match sp_item c v st1 nx' t sk' with
                 | Some (inl (out, evs2, st2, lost, nx2)) => Some (inl (out, evs ++ evs2, st2, lost, nx2))
                 | Some (inr (p, evs2, st2, nx2)) => Some (inr (p, evs ++ evs2, st2, nx2))
                 | None => None
                 end
               else Some (inr (PCapacity, evs ++ drop_ev c t, st1, nx'))
           end
  | KMut _ => None
  end.

Fixpoint sp_walk_mv (c : cfg) (v : nat) (xs : list N) (pat : list (bool * sink)) (i j : nat) (st : astate) (nx : N)
  : option wres :=
  match pat with
  | [] => Some (WDone [] [] i j st [] nx)
  | (front, sk) :: rest =>
      if (i =? j)%nat then
        match sp_walk_mv c v xs rest i j st nx with
        | Some (WDone rets evs i' j' st' lost nx') =>
            Some (WDone (match sk with KSkip => rets | _ => 0 :: 0 :: N.of_nat (j - i) :: rets end) evs i' j' st' lost nx')
        | r => r
        end
      else
        let idx := if front then i else (j - 1)%nat in
        let i1 := if front then S i else i in
        let j1 := if front then j else (j - 1)%nat in
        let t := nth idx xs 0 in
        match sp_item c v st nx t sk with
        | None => None
        | Some (inr (p, evs0, st1, nx1)) => Some (WStop p evs0 i1 j1 st1 [] nx1)
        | Some (inl (out, evs0, st1, lost0, nx1)) =>
            match sp_walk_mv c v xs rest i1 j1 st1 nx1 with
            | Some (WDone rets evs i' j' st' lost nx') =>
                Some (WDone (match sk with KSkip => rets | _ => 1 :: t :: N.of_nat (j1 - i1) :: out ++ rets end)
                            (evs0 ++ evs) i' j' st' (lost0 ++ lost) nx')
            | Some (WStop p evs i' j' st' lost nx') => Some (WStop p (evs0 ++ evs) i' j' st' (lost0 ++ lost) nx')
            | None => None
            end
        end
  end.

Definition sp_drain_mv (c : cfg) (st : astate) (nx : N) (v : nat) (sb eb : bound) (pat : list (bool * sink)) (f : fin)
  : option sres :=
  match get_a v st with
  | None => None
  | Some a =>
      let xs := a_xs a in
      match range_of_bounds usize_max (N.of_nat (length xs)) (to_sb sb) (to_sb eb) with
      | None => Some (panic_res (range_panic sb eb) [] st nx)
      | Some (s, e) =>
          let s := N.to_nat s in let e := N.to_nat e in
          (* while the iterator is alive the vector shows the elements in front of the range *)
          let hidden := set_a v (Some (with_xs a (firstn s xs))) st in
          let rest_drops i j := if c_dg c then map EDrop (firstn (j - i) (skipn i xs)) else [] in
          let closed st' := set_a v (Some (with_xs a (VecSpec.sp_drain s e xs))) st' in
          match sp_walk_mv c v xs pat s e hidden nx with
          | None => None
          | Some (WDone rets evs i j st' _ nx') =>
              match f with
              | FinDrop => Some (ok_res (N.of_nat (e - s) :: rets) (evs ++ rest_drops i j) (closed st') nx')
              | FinForget => Some (ok_res (N.of_nat (e - s) :: rets) evs st' nx')
              end
          | Some (WStop p evs i j st' _ nx') =>
              (* a refused move unwinds through the iterator: it is dropped whatever the caller meant to do with it *)
              Some (panic_res p (evs ++ rest_drops i j) (closed st') nx')
          end
      end
  end.

(** ** clone / clone_empty / clone_empty_in *)

(** [v.clone()] into slot [dst] (another slot): the i-th element of the result is a clone of the source's
    i-th element - a NEW value, one Clone call per element in index order; same backend kind; the source
    is untouched *)
Definition sp_clone (c : cfg) (st : astate) (nx : N) (v dst : nat) : option sres :=
  if Nat.eqb dst v then None
  else match get_a v st with
       | None => None
       | Some a =>
           let xs := a_xs a in
           let ys := next_ids c nx (length xs) in
           Some (ok_res [] (map (fun p => EClone (fst p) (snd p)) (combine xs ys))
                        (set_a dst (Some {| a_bk := a_bk a; a_xs := ys |}) st) (nx + N.of_nat (length xs)))
       end.

(** an empty vector of the same element type on backend [bk] *)
Definition sp_new (c : cfg) (st : astate) (nx : N) (dst : nat) (bk : bkind) : option sres :=
  match bk with
  | BStackN n size =>
      if stackn_fits n (c_sz c) size
      then Some (ok_res [] [] (set_a dst (Some {| a_bk := bk; a_xs := [] |}) st) nx)
      else Some (panic_res PStackN [] st nx)
  | _ => Some (ok_res [] [] (set_a dst (Some {| a_bk := bk; a_xs := [] |}) st) nx)
  end.

(** ** splice with an honest replacement iterator of owned values

    [v.splice(range, items)] where [items] yields exactly [n] fresh values of the vector's element type and
    reports that number as its size hint ([claimed = n], no wrong-typed item); the values are created before
    the call (identities [nx .. nx+n-1]).  The iterator is consumed by any pattern, like drain; when it is
    dropped the un-yielded rest of the range is destroyed in order, then the [n] replacement values are
    pulled ([ENext]) and moved in - Vec::splice's result.  When the result does not fit a fixed capacity
    (or its length is not representable) the drop panics: the replacement values are destroyed, once each,
    the vector keeps the elements in front of the range.  A leaked iterator leaks the replacement values too.
    An invalid range panics before the vector is touched and destroys the replacement values. *)
Definition sp_splice (c : cfg) (st : astate) (nx : N) (v : nat) (sb eb : bound) (pat : list (bool * sink)) (f : fin)
           (rk : rkind) (n : N) (wrong_at : option N) (claimed : N) : option sres :=
  match rk, wrong_at with
  | RLazy _, _ | _, Some _ => None
  | _, None =>
    match get_a v st with
    | None => None
    | Some a =>
      let xs := a_xs a in
      let ts := next_ids c nx (N.to_nat n) in
      let nx' := nx + n in
      let item_drops := if c_dg c then map EDrop ts else [] in
      match range_of_bounds usize_max (N.of_nat (length xs)) (to_sb sb) (to_sb eb) with
      | None => Some (panic_res (range_panic sb eb) item_drops st nx')
      | Some (s, e) =>
          let s := N.to_nat s in let e := N.to_nat e in
          match sp_walk xs pat s e with
          | None => None
          | Some (rets, ds, i, j) =>
              let yielded := flat_map (drop_ev c) ds in
              let kept := set_a v (Some (with_xs a (firstn s xs))) st in
              match f with
              | FinForget => Some (ok_res (N.of_nat (e - s) :: rets) yielded kept nx')
              | FinDrop =>
                  (* the iterator yields [n] items but announces [claimed] (first answer): storage is
                     prepared for the announcement, only what is really delivered - and fits - goes in *)
                  let written := Nat.min (N.to_nat claimed) (N.to_nat n) in
                  let new_len := N.of_nat s + claimed + N.of_nat (length xs - e) in
                  if usize_max <? new_len then Some (panic_res POverflow (yielded ++ item_drops) kept nx')
                  else if (match acap c (a_bk a) with Some cap => cap <? new_len | None => false end)
                  then Some (panic_res PCapacity (yielded ++ item_drops) kept nx')
                  else Some (ok_res (N.of_nat (e - s) :: rets)
                                    (yielded ++ (if c_dg c then map EDrop (firstn (j - i) (skipn i xs)) else [])
                                             ++ repeat ENext (Nat.min (N.to_nat claimed) (S (N.to_nat n)))
                                             ++ (if c_dg c then map EDrop (skipn written ts) else []))
                                    (set_a v (Some (with_xs a (VecSpec.sp_splice s e (firstn written ts) xs))) st) nx')
              end
          end
      end
    end
  end.

(** what dropping a [Splice] with the cursor at [i, j) does: refused ([inl]), or the events of the drop and the new
    contents *)
Definition sp_splice_fin (c : cfg) (a : avec) (s e i j : nat) (ts : list N) (claimed n : N)
  : panic + (list event * list N) :=
  let xs := a_xs a in
  let written := Nat.min (N.to_nat claimed) (N.to_nat n) in
  let new_len := N.of_nat s + claimed + N.of_nat (length xs - e) in
  if usize_max <? new_len then inl POverflow
  else if (match acap c (a_bk a) with Some cap => cap <? new_len | None => false end) then inl PCapacity
  else inr ((if c_dg c then map EDrop (firstn (j - i) (skipn i xs)) else [])
             ++ repeat ENext (Nat.min (N.to_nat claimed) (S (N.to_nat n)))
             ++ (if c_dg c then map EDrop (skipn written ts) else []),
            VecSpec.sp_splice s e (firstn written ts) xs).

(** splice whose yielded items are also moved into other vectors or forgotten (see [sp_drain_mv]).  A refused move
    unwinds through the [Splice]: its drop fills the gap as usual - unless that drop is itself refused, a second
    panic during unwinding, which aborts the process (outside the fragment). *)
Definition sp_splice_mv0 (c : cfg) (st : astate) (nx : N) (v : nat) (sb eb : bound) (pat : list (bool * sink)) (f : fin)
           (n : N) (claimed : N) : option sres :=
    match get_a v st with
    | None => None
    | Some a =>
      let xs := a_xs a in
      let ts := next_ids c nx (N.to_nat n) in
      let nx' := nx + n in
      let item_drops := if c_dg c then map EDrop ts else [] in
      match range_of_bounds usize_max (N.of_nat (length xs)) (to_sb sb) (to_sb eb) with
      | None => Some (panic_res (range_panic sb eb) item_drops st nx')
      | Some (s, e) =>
          let s := N.to_nat s in let e := N.to_nat e in
          let hidden := set_a v (Some (with_xs a (firstn s xs))) st in
          match sp_walk_mv c v xs pat s e hidden nx' with
          | None => None
          | Some (WDone rets evs i j st' _ nx2) =>
              match f with
              | FinForget => Some (ok_res (N.of_nat (e - s) :: rets) evs st' nx2)
              | FinDrop =>
                  match sp_splice_fin c a s e i j ts claimed n with
                  | inl p => Some (panic_res p (evs ++ item_drops) st' nx2)
                  | inr (fevs, ys) =>
                      Some (ok_res (N.of_nat (e - s) :: rets) (evs ++ fevs) (set_a v (Some (with_xs a ys)) st') nx2)
                  end
              end
          | Some (WStop p evs i j st' _ nx2) =>
              match sp_splice_fin c a s e i j ts claimed n with
              | inl _ => None
              | inr (fevs, ys) => Some (panic_res p (evs ++ fevs) (set_a v (Some (with_xs a ys)) st') nx2)
              end
          end
      end
    end.
Definition sp_splice_mv (c : cfg) (st : astate) (nx : N) (v : nat) (sb eb : bound) (pat : list (bool * sink)) (f : fin)
           (rk : rkind) (n : N) (wrong_at : option N) (claimed : N) : option sres :=
  match rk, wrong_at with
  | RLazy _, _ | _, Some _ => None
  | _, None => sp_splice_mv0 c st nx v sb eb pat f n claimed
  end.
Lemma sp_splice_mv_inv c st nx v sb eb pat f rk n wrong_at claimed r :
  sp_splice_mv c st nx v sb eb pat f rk n wrong_at claimed = Some r ->
  (rk = RWrap \/ rk = RBox) /\ wrong_at = None /\ sp_splice_mv0 c st nx v sb eb pat f n claimed = Some r.
Proof.
  unfold sp_splice_mv. intros H.
  destruct wrong_at as [x|]; [destruct rk; discriminate|].
  destruct rk; [split; [left; reflexivity|split; [reflexivity|exact H]]|split; [right; reflexivity|split; [reflexivity|exact H]]|discriminate].
Qed.

(** splice whose [j]-th replacement value (of [n], honestly announced) has ANOTHER runtime type: the type check
    of the fill loop refuses it.  The items in front of it are already in the storage but the length was never
    raised: they are leaked, like the tail behind the range; the refused value and the ones behind it are destroyed,
    once each; the vector keeps the elements in front of the range - shorter, but valid. *)
Definition sp_splice_wrong (c : cfg) (st : astate) (nx : N) (v : nat) (sb eb : bound) (pat : list (bool * sink)) (f : fin)
           (rk : rkind) (n : N) (j : N) (claimed : N) : option sres :=
  match rk with
  | RLazy _ => None
  | _ =>
    if negb (j <? n) || negb (claimed =? n) then None else
    match get_a v st with
    | None => None
    | Some a =>
      let xs := a_xs a in
      let ts := next_ids c nx (N.to_nat n) in
      let nx' := nx + n in
      let item_drops := if c_dg c then map EDrop ts else [] in
      match range_of_bounds usize_max (N.of_nat (length xs)) (to_sb sb) (to_sb eb) with
      | None => Some (panic_res (range_panic sb eb) item_drops st nx')
      | Some (s, e) =>
          let s := N.to_nat s in let e := N.to_nat e in
          match sp_walk xs pat s e with
          | None => None
          | Some (rets, ds, i, j2) =>
              let yielded := flat_map (drop_ev c) ds in
              let kept := set_a v (Some (with_xs a (firstn s xs))) st in
              match f with
              | FinForget => Some (ok_res (N.of_nat (e - s) :: rets) yielded kept nx')
              | FinDrop =>
                  let new_len := N.of_nat s + n + N.of_nat (length xs - e) in
                  if usize_max <? new_len then Some (panic_res POverflow (yielded ++ item_drops) kept nx')
                  else if (match acap c (a_bk a) with Some cap => cap <? new_len | None => false end)
                  then Some (panic_res PCapacity (yielded ++ item_drops) kept nx')
                  else Some (panic_res PType
                                       (yielded ++ (if c_dg c then map EDrop (firstn (j2 - i) (skipn i xs)) else [])
                                                ++ repeat ENext (S (N.to_nat j))
                                                ++ (if c_dg c then map EDrop (skipn (N.to_nat j) ts) else []))
                                       kept nx')
              end
          end
      end
    end
  end.

(** the values a lazily cloning replacement iterator draws on: element [k mod len] of the source vector for the
    k-th item (the harness cycles through the source) *)
Definition lazy_srcs (ys : list N) (n : nat) : list N := map (fun k => nth (k mod length ys) ys 0) (seq 0 n).
(** the events of the fill loop of Splice::drop with lazily cloning items, oldest first *)
Fixpoint sp_lazy_fill_events (srcs ids : list N) : list event :=
  match srcs, ids with
  | t :: ts, n :: ns => ENext :: EClone t n :: sp_lazy_fill_events ts ns
  | _, _ => []
  end.
(** splice whose replacement items are LAZY CLONES of elements of another vector [src] (announcing [claimed] items,
    delivering [n]): as [sp_splice], but the items own nothing - a refused or leaked splice destroys and leaks none
    of them -, and every item that is taken is consumed by exactly one Clone call that makes a new value *)
Definition sp_splice_lazy (c : cfg) (st : astate) (nx : N) (v : nat) (sb eb : bound) (pat : list (bool * sink)) (f : fin)
           (src : nat) (n : N) (claimed : N) : option sres :=
  if Nat.eqb src v then None else
  match get_a v st, get_a src st with
  | Some a, Some b =>
      let xs := a_xs a in
      let ys := a_xs b in
      if (0 <? n) && (length ys =? 0)%nat then Some (panic_res PIndex [] st nx)      (* at(0) of an empty source *)
      else
      let srcs := lazy_srcs ys (N.to_nat n) in
      match range_of_bounds usize_max (N.of_nat (length xs)) (to_sb sb) (to_sb eb) with
      | None => Some (panic_res (range_panic sb eb) [] st nx)
      | Some (s, e) =>
          let s := N.to_nat s in let e := N.to_nat e in
          match sp_walk xs pat s e with
          | None => None
          | Some (rets, ds, i, j) =>
              let yielded := flat_map (drop_ev c) ds in
              let kept := set_a v (Some (with_xs a (firstn s xs))) st in
              match f with
              | FinForget => Some (ok_res (N.of_nat (e - s) :: rets) yielded kept nx)
              | FinDrop =>
                  let written := Nat.min (N.to_nat claimed) (N.to_nat n) in
                  let ids := next_ids c nx written in
                  let new_len := N.of_nat s + claimed + N.of_nat (length xs - e) in
                  if usize_max <? new_len then Some (panic_res POverflow yielded kept nx)
                  else if (match acap c (a_bk a) with Some cap => cap <? new_len | None => false end)
                  then Some (panic_res PCapacity yielded kept nx)
                  else Some (ok_res (N.of_nat (e - s) :: rets)
                                    (yielded ++ (if c_dg c then map EDrop (firstn (j - i) (skipn i xs)) else [])
                                             ++ sp_lazy_fill_events (firstn (N.to_nat claimed) srcs) ids
                                             ++ (if n <? claimed then [ENext] else []))
                                    (set_a v (Some (with_xs a (VecSpec.sp_splice s e ids xs))) st) (nx + N.of_nat written))
              end
          end
      end
  | _, _ => None
  end.

(** ** read-only iteration: iter / iter_mut, typed and erased, cloned iterators, nth / nth_back *)

(** the calls [true] = next(), [false] = next_back() on the cursor [i, j): per call the flag, the value and
    the size hint after the call *)
Fixpoint sp_walk_ro (xs : list N) (pat : list bool) (i j : nat) : list N :=
  match pat with
  | [] => []
  | front :: rest =>
      if (i =? j)%nat then 0 :: 0 :: N.of_nat (j - i) :: sp_walk_ro xs rest i j
      else
        let idx := if front then i else (j - 1)%nat in
        let i1 := if front then S i else i in
        let j1 := if front then j else (j - 1)%nat in
        1 :: nth idx xs 0 :: N.of_nat (j1 - i1) :: sp_walk_ro xs rest i1 j1
  end.
(** where the cursor stands after the calls *)
Fixpoint sp_adv (pat : list bool) (i j : nat) : nat * nat :=
  match pat with
  | [] => (i, j)
  | front :: rest =>
      if (i =? j)%nat then sp_adv rest i j
      else sp_adv rest (if front then S i else i) (if front then j else (j - 1)%nat)
  end.
(** [(true, n)] = nth(n), [(false, n)] = nth_back(n): the n-th element from that end of what is left,
    consuming n + 1; [None] - and the iterator is exhausted - when fewer are left *)
Fixpoint sp_walk_nth (xs : list N) (pat : list (bool * N)) (i j : nat) : list N :=
  match pat with
  | [] => []
  | (front, n) :: rest =>
      if n <? N.of_nat (j - i) then
        let k := N.to_nat n in
        let idx := if front then (i + k)%nat else (j - 1 - k)%nat in
        let i1 := if front then (i + k + 1)%nat else i in
        let j1 := if front then j else (j - 1 - k)%nat in
        1 :: nth idx xs 0 :: N.of_nat (j1 - i1) :: sp_walk_nth xs rest i1 j1
      else
        let p := if front then j else i in
        0 :: 0 :: 0 :: sp_walk_nth xs rest p p
  end.

(** operations that only look *)
Definition sp_look (c : cfg) (st : astate) (nx : N) (o : op) : option sres :=
  match o with
  | OIter _ v pat =>
      match get_a v st with
      | Some a => let xs := a_xs a in
                  Some (ok_res (N.of_nat (length xs) :: sp_walk_ro xs pat 0 (length xs)) [] st nx)
      | None => None
      end
  | OIterNth _ v pat =>
      match get_a v st with
      | Some a => let xs := a_xs a in
                  Some (ok_res (N.of_nat (length xs) :: sp_walk_nth xs pat 0 (length xs)) [] st nx)
      | None => None
      end
  | OIterClone _ v pat1 pat2 =>
      (* an iterator and its clone continue independently from the same position *)
      match get_a v st with
      | Some a => let xs := a_xs a in
                  let '(i, j) := sp_adv pat1 0 (length xs) in
                  let rest := N.of_nat (j - i) :: sp_walk_ro xs pat2 i j in
                  Some (ok_res (N.of_nat (length xs) :: sp_walk_ro xs pat1 0 (length xs) ++ rest ++ rest) [] st nx)
      | None => None
      end
  | ORead _ v idx =>
      (* get(idx) through an element handle: the value, that its type is the element type, its size *)
      match get_a v st with
      | Some a => if idx <? N.of_nat (length (a_xs a))
                  then Some (ok_res [nth (N.to_nat idx) (a_xs a) 0; 1; c_sz c] [] st nx)
                  else Some (none_res st nx)
      | None => None
      end
  | OProbeTypes v idx =>
      (* downcasts succeed for the element type and for no other; reported type and layout *)
      match get_a v st with
      | Some a => let head := [1; 0; 1; 0; 1; c_sz c; c_al c] in
                  Some (ok_res (if idx <? N.of_nat (length (a_xs a)) then head ++ [1; c_sz c; 1; 0; 1; 0; 1; 0] else head) [] st nx)
      | None => None
      end
  | OSwapWrong v idx =>
      (* swapping an element with a value of another type is refused; that value is destroyed *)
      match get_a v st with
      | Some a => if idx <? N.of_nat (length (a_xs a))
                  then Some (panic_res PType (drop_ev c (tok c nx)) st (nx + 1))
                  else Some (panic_res PIndex [] st nx)
      | None => None
      end
  | OPlacement => Some (ok_res [0] [] st nx)
  | _ => None
  end.

(** ** more operations of the fragment *)

(** a value of another type offered to the erased push / insert: refused (PType), destroyed once, nothing
    else changes *)
Definition sp_offer_wrong (c : cfg) (st : astate) (nx : N) (v : nat) (k : N) : option sres :=
  match get_a v st with
  | Some _ => if k =? c_ty c then None else Some (panic_res PType (drop_ev c (tok c nx)) st (nx + 1))
  | None => None
  end.

(** writing through an element handle: [*handle = new value]; the old value is returned (and destroyed by
    the caller), nothing else changes *)
Definition sp_write (c : cfg) (st : astate) (nx : N) (v : nat) (idx : N) : option sres :=
  match get_a v st with
  | Some a =>
      let xs := a_xs a in
      if idx <? N.of_nat (length xs) then
        let i := N.to_nat idx in
        let t := nth i xs 0 in
        Some (ok_res [t] (drop_ev c t) (set_a v (Some (with_xs a (sp_upd i (tok c nx) xs))) st) (nx + 1))
      else Some (panic_res PIndex [] st nx)
  | None => None
  end.

(** [a[i].swap(b[j])] through two element handles of DIFFERENT vectors: the two values change places *)
Definition sp_swap (c : cfg) (st : astate) (nx : N) (v1 : nat) (i : N) (v2 : nat) (j : N) : option sres :=
  if Nat.eqb v1 v2 then None
  else match get_a v1 st, get_a v2 st with
       | Some a, Some b =>
           if negb (i <? N.of_nat (length (a_xs a))) || negb (j <? N.of_nat (length (a_xs b)))
           then Some (panic_res PIndex [] st nx)
           else
             let x := nth (N.to_nat i) (a_xs a) 0 in
             let y := nth (N.to_nat j) (a_xs b) 0 in
             Some (ok_res [] []
                          (set_a v2 (Some (with_xs b (sp_upd (N.to_nat j) x (a_xs b))))
                                 (set_a v1 (Some (with_xs a (sp_upd (N.to_nat i) y (a_xs a)))) st)) nx)
       | _, _ => None
       end.

(** the removal handle of [v1[i]] (remove(i), not yet consumed) swapped with the element handle of [v2[j]], then
    dropped: [v2[j]] holds what was [v1[i]], the value that was [v2[j]] is destroyed with the handle, [v1] has lost
    position [i] *)
Definition sp_swap_temp (c : cfg) (st : astate) (nx : N) (v1 : nat) (i : N) (v2 : nat) (j : N) : option sres :=
  if Nat.eqb v1 v2 then None
  else match get_a v1 st, get_a v2 st with
       | Some a, Some b =>
           if negb (i <? N.of_nat (length (a_xs a))) || negb (j <? N.of_nat (length (a_xs b)))
           then Some (panic_res PIndex [] st nx)
           else
             let x := nth (N.to_nat i) (a_xs a) 0 in
             let y := nth (N.to_nat j) (a_xs b) 0 in
             Some (ok_res [] (drop_ev c y)
                          (set_a v2 (Some (with_xs b (sp_upd (N.to_nat j) x (a_xs b))))
                                 (set_a v1 (Some (with_xs a (sp_remove (N.to_nat i) (a_xs a)))) st)) nx)
       | _, _ => None
       end.

(** push / insert of a LAZY CLONE of element [sidx] of another vector [src] (any nesting depth of
    lazy_clone()): the clone is a new value made by exactly one Clone call at the moment of consumption and it
    is what the destination receives; the source is untouched; a refused offer (index, full fixed capacity)
    clones nothing *)
Definition sp_offer_lazy (c : cfg) (st : astate) (nx : N) (v : nat) (idx : option N) (src : nat) (sidx : N)
  : option sres :=
  if Nat.eqb src v then None
  else match get_a v st, get_a src st with
       | Some a, Some b =>
           if sidx <? N.of_nat (length (a_xs b)) then
             let t0 := nth (N.to_nat sidx) (a_xs b) 0 in
             let n := tok c nx in
             match put_value c a idx n with
             | inl xs' => Some (ok_res [] [EClone t0 n] (set_a v (Some (with_xs a xs')) st) (nx + 1))
             | inr p => Some (panic_res p [] st nx)
             end
           else Some (panic_res PIndex [] st nx)
       | _, _ => None
       end.

(** push / insert of a REMOVAL HANDLE of another vector (v.push(other.remove(i)) ...): exactly what the same
    handle moved by the sink does ([sp_take] with [KPush] / [KIns]) - the element leaves [src] and arrives in
    [v], or is destroyed once if [v] refuses it; popping an empty source panics (the caller's unwrap) *)
Definition sp_offer_temp (c : cfg) (st : astate) (nx : N) (v : nat) (idx : option N) (src : nat) (k : tkind) (sidx : N)
  : option sres :=
  match sp_take c st nx src k (match k with TPop => 0 | _ => sidx end)
                (match idx with None => KPush v | Some i => KIns v i end) with
  | Some r0 => Some (if s_out r0 =? 1 then panic_res PIndex [] st nx else r0)
  | None => None
  end.

(** push / insert of a lazy clone of a value the CALLER owns (a user-defined cloneable value of the element
    type): the caller's value is created first and destroyed afterwards whether or not the offer is taken; a
    taken offer clones it exactly once *)
Definition sp_offer_userlazy (c : cfg) (st : astate) (nx : N) (v : nat) (idx : option N) : option sres :=
  match get_a v st with
  | Some a =>
      let t := tok c nx in
      let n := tok c (nx + 1) in
      match put_value c a idx n with
      | inl xs' => Some (ok_res [] (EClone t n :: drop_ev c t) (set_a v (Some (with_xs a xs')) st) (nx + 2))
      | inr p => Some (panic_res p (drop_ev c t) st (nx + 1))
      end
  | None => None
  end.

(** the fragment: by-value or boxed replacement values, all of the right type, honest size hint *)
Lemma sp_splice_inv c st nx v sb eb pat f rk n wrong_at claimed r :
  sp_splice c st nx v sb eb pat f rk n wrong_at claimed = Some r ->
  (rk = RWrap \/ rk = RBox) /\ wrong_at = None /\
  sp_splice c st nx v sb eb pat f RWrap n None claimed = Some r.
Proof.
  unfold sp_splice. intros H.
  destruct wrong_at as [x|]; [destruct rk; discriminate|].
  assert (Hrk : rk = RWrap \/ rk = RBox) by (destruct rk; [left|right|discriminate]; reflexivity).
  split; [exact Hrk|]. split; [reflexivity|].
  destruct Hrk as [-> | ->]; exact H.
Qed.

(** [vecs[v].at(idx).lazy_clone()^depth .downcast::<T>()]: one Clone of the element, whatever the depth of the chain;
    the clone is the caller's, who destroys it; the vector is untouched *)
Definition sp_lazy_down (c : cfg) (st : astate) (nx : N) (v : nat) (idx : N) : option sres :=
  match get_a v st with
  | None => None
  | Some a =>
      if idx <? N.of_nat (length (a_xs a))
      then let t := nth (N.to_nat idx) (a_xs a) 0 in
           let n := tok c nx in
           Some (ok_res [n] (EClone t n :: drop_ev c n) st (nx + 1))
      else Some (panic_res PIndex [] st nx)
  end.

(** k fresh values written into the spare capacity (spare_bytes_mut / spare_capacity_mut), then set_len: they are the
    new tail.  That they fit below the capacity is the caller's obligation ([admissible]). *)
Definition sp_spare_write (c : cfg) (st : astate) (nx : N) (v : nat) (k : N) : option sres :=
  match get_a v st with
  | None => None
  | Some a => Some (ok_res [] [] (set_a v (Some (with_xs a (a_xs a ++ next_ids c nx (N.to_nat k)))) st) (nx + k))
  end.

(** the geometry of the byte / slice views (offset and extent of as_bytes, spare_bytes_mut, as_slice,
    spare_capacity_mut; residue of the base address): on the backends whose capacity the backend kind fixes the list
    and the backend determine it (the list specification does not carry the capacity of a resizable backend) *)
Definition sp_views (c : cfg) (st : astate) (nx : N) (v : nat) : option sres :=
  match get_a v st with
  | Some a =>
      match acap c (a_bk a) with
      | Some cp => let l := N.of_nat (length (a_xs a)) in let s := c_sz c in
                   Some (ok_res [0; l * s; l * s; (cp - l) * s; 0; l; l * s; cp - l; 0] [] st nx)
      | None => None
      end
  | None => None
  end.

Definition spec_step (c : cfg) (st : astate) (nx : N) (o : op) : option sres :=
  match o with
  | ONew dst bk => sp_new c st nx dst bk
  | OClone v dst => sp_clone c st nx v dst
  | OCloneEmpty v dst =>
      match get_a v st with Some a => if Nat.eqb dst v then None else sp_new c st nx dst (a_bk a) | None => None end
  | OCloneEmptyIn v dst bk =>
      match get_a v st with Some _ => if Nat.eqb dst v then None else sp_new c st nx dst bk | None => None end
  | OWithCapacity dst bk n =>
      if resizable bk then
        (* a capacity whose size in bytes is not representable, or no valid layout, is refused before anything is
           allocated or replaced (cf. [sp_capacity]) *)
        if layout_limit c bk <? c_sz c * n
        then Some (panic_res (if usize_max <? c_sz c * n then POverflow else PLayout) [] st nx)
        else sp_new c st nx dst bk
      else None
  | OPush a v s =>
      if fresh_src s then sp_offer c st nx v None
      else match a, s with
           | Erased, SWrong k | Erased, SBoxWrong k => sp_offer_wrong c st nx v k
           | _, SLazy _ src sidx => sp_offer_lazy c st nx v None src sidx
           | Erased, STemp src k sidx => sp_offer_temp c st nx v None src k sidx
           | Erased, SLazyUser _ => sp_offer_userlazy c st nx v None
           | _, _ => None
           end
  | OInsert a v idx s =>
      if fresh_src s then sp_offer c st nx v (Some idx)
      else match a, s with
           | Erased, SWrong k | Erased, SBoxWrong k =>
               (* the type is checked before the index *)
               sp_offer_wrong c st nx v k
           | _, SLazy _ src sidx => sp_offer_lazy c st nx v (Some idx) src sidx
           | Erased, STemp src k sidx => sp_offer_temp c st nx v (Some idx) src k sidx
           | Erased, SLazyUser _ => sp_offer_userlazy c st nx v (Some idx)
           | _, _ => None
           end
  | OWrite _ v idx => sp_write c st nx v idx
  | OSwap pr v1 i v2 j => if pr =? 0 then sp_swap c st nx v1 i v2 j else sp_swap_temp c st nx v1 i v2 j
  | OLazyDown _ v idx => sp_lazy_down c st nx v idx
  | OViews v => sp_views c st nx v
  | OSpareWrite _ v k => sp_spare_write c st nx v k
  | ODownWrong v k idx =>
      (* a removal handle whose downcast to another type gives None: the element is destroyed as by a
         dropped handle; reported: type id ok, size, three refused downcasts *)
      match sp_take c st nx v k (match k with TPop => 0 | _ => idx end) KDrop with
      | Some r => Some (if s_out r =? 0 then {| s_out := 0; s_pk := 0; s_ret := [1; c_sz c; 0; 0; 0]; s_evs := s_evs r;
                                               s_st := s_st r; s_nx := s_nx r |} else r)
      | None => None
      end
  | OPop _ v k => sp_take c st nx v TPop 0 k
  | ORemove _ v idx k => sp_take c st nx v TRemove idx k
  | OSwapRemove _ v idx k => sp_take c st nx v TSwapRemove idx k
  | OClear _ v =>
      match get_a v st with
      | None => None
      | Some a => Some (ok_res [] (if c_dg c then map EDrop (a_xs a) else [])
                               (set_a v (Some (with_xs a [])) st) nx)
      end
  | OGet _ v idx =>
      match get_a v st with
      | None => None
      | Some a => if idx <? N.of_nat (length (a_xs a))
                  then Some (ok_res [nth (N.to_nat idx) (a_xs a) 0] [] st nx)
                  else Some (none_res st nx)
      end
  | OAt _ v idx =>
      match get_a v st with
      | None => None
      | Some a => if idx <? N.of_nat (length (a_xs a))
                  then Some (ok_res [nth (N.to_nat idx) (a_xs a) 0] [] st nx)
                  else Some (panic_res PIndex [] st nx)
      end
  | ODropVec v =>
      match get_a v st with
      | None => None
      | Some a => Some (ok_res [] (if c_dg c then map EDrop (a_xs a) else []) (set_a v None st) nx)
      end
  | ODrain _ v sb eb pat f =>
      match sp_drain c st nx v sb eb pat f with
      | Some r => Some r
      | None => sp_drain_mv c st nx v sb eb pat f
      end
  | OSplice _ v sb eb pat f rk n (Some j) claimed => sp_splice_wrong c st nx v sb eb pat f rk n j claimed
  | OSplice _ v sb eb pat f (RLazy src) n None claimed => sp_splice_lazy c st nx v sb eb pat f src n claimed
  | OSplice _ v sb eb pat f rk n wrong_at claimed =>
      match sp_splice c st nx v sb eb pat f rk n wrong_at claimed with
      | Some r => Some r
      | None => sp_splice_mv c st nx v sb eb pat f rk n wrong_at claimed
      end
  | OReserve v n => sp_capacity c st nx v (Some n) false
  | OReserveExact v n => sp_capacity c st nx v (Some n) true
  | OShrinkToFit v => sp_capacity c st nx v None false
  | OShrinkTo v _ => sp_capacity c st nx v None false
  | OIter _ _ _ | OIterNth _ _ _ | OIterClone _ _ _ _ | ORead _ _ _ | OProbeTypes _ _ | OSwapWrong _ _ | OPlacement => sp_look c st nx o
  | _ => None
  end.

(** a whole history *)
Fixpoint spec_run (c : cfg) (st : astate) (nx : N) (ops : list op) : option (list sres) :=
  match ops with
  | [] => Some []
  | o :: r =>
      match spec_step c st nx o with
      | None => None
      | Some x => match spec_run c (s_st x) (s_nx x) r with
                  | None => None
                  | Some l => Some (x :: l)
                  end
      end
  end.

(** ** steps in which user code panics

    [fuse = Some k]: the (k+1)-th call of user code (an element destructor) the step makes panics.  What
    any_vec promises then (C06): nothing is destroyed twice, whatever is still visible is alive - the only
    damage is that some elements are leaked. *)

(** [clear] destroys the elements in order; when the destructor of element [k] panics the vector is already
    empty: elements [k+1 ..] are leaked *)
Definition sp_clear_f (c : cfg) (st : astate) (nx : N) (v : nat) (k : N) : option sres :=
  match get_a v st with
  | Some a =>
      let xs := a_xs a in
      let emptied := set_a v (Some (with_xs a [])) st in
      if c_dg c && (k <? N.of_nat (length xs))
      then Some (panic_res PUser (map EDrop (firstn (S (N.to_nat k)) xs)) emptied nx)
      else Some (ok_res [] (if c_dg c then map EDrop xs else []) emptied nx)
  | None => None
  end.

(** a removal handle that is dropped: its element's destructor is the only user call; when it panics the
    vector keeps the elements in front of the handle, the tail behind it is leaked *)
Definition sp_take_drop_f (c : cfg) (st : astate) (nx : N) (v : nat) (tk : tkind) (idx : N) (k : N) : option sres :=
  match sp_take c st nx v tk idx KDrop with
  | Some r0 =>
      if c_dg c && (k =? 0) && (s_out r0 =? 0) then
        match get_a v st with
        | Some a =>
            let xs := a_xs a in
            let i := match tk with TPop => (length xs - 1)%nat | _ => N.to_nat idx end in
            Some (panic_res PUser [EDrop (nth i xs 0)] (set_a v (Some (with_xs a (firstn i xs))) st) nx)
        | None => None
        end
      else Some r0
  | None => None
  end.

(** a drain that is dropped without having yielded anything: the elements of the range are destroyed in order;
    when the destructor of the k-th panics, the type-erased drain stops there, the typed one destroys the rest of
    the range all the same (slice drop glue) and then unwinds; either way the tail is not moved: the vector keeps
    the elements in front of the range, the rest is leaked *)
Definition sp_drain_f (c : cfg) (st : astate) (nx : N) (a : api) (v : nat) (sb eb : bound) (k : N) : option sres :=
  match get_a v st with
  | None => None
  | Some av =>
      let xs := a_xs av in
      match range_of_bounds usize_max (N.of_nat (length xs)) (to_sb sb) (to_sb eb) with
      | None => Some (panic_res (range_panic sb eb) [] st nx)
      | Some (s, e) =>
          let s := N.to_nat s in let e := N.to_nat e in
          let range := firstn (e - s) (skipn s xs) in
          if c_dg c && (k <? N.of_nat (e - s))
          then Some (panic_res PUser (map EDrop (match a with Erased => firstn (S (N.to_nat k)) range | Typed => range end))
                               (set_a v (Some (with_xs av (firstn s xs))) st) nx)
          else sp_drain c st nx v sb eb [] FinDrop
      end
  end.

(** a splice (honest replacement values, valid range, result that fits) that is dropped unconsumed, with a fuse:
    the destructor of the k-th element of the range panics (A: as the drain; the replacement values are destroyed
    too), or - the range being gone - the f-th call of the replacement iterator's next() panics (B: the values not
    yet pulled are destroyed, those already moved in are leaked together with the tail), or nothing panics (C) *)
Definition sp_splice_f (c : cfg) (st : astate) (nx : N) (a : api) (v : nat) (sb eb : bound)
           (rk : rkind) (n : N) (wrong_at : option N) (claimed : N) (k : N) : option sres :=
  match rk, wrong_at with
  | RLazy _, _ | _, Some _ => None
  | _, None =>
    if negb (claimed =? n) then None else
    match get_a v st with
    | None => None
    | Some av =>
      let xs := a_xs av in
      let ts := next_ids c nx (N.to_nat n) in
      let nx' := nx + n in
      match range_of_bounds usize_max (N.of_nat (length xs)) (to_sb sb) (to_sb eb) with
      | None => None
      | Some (s, e) =>
          let s := N.to_nat s in let e := N.to_nat e in
          let range := firstn (e - s) (skipn s xs) in
          let new_len := N.of_nat s + n + N.of_nat (length xs - e) in
          let kept := set_a v (Some (with_xs av (firstn s xs))) st in
          if (usize_max <? new_len) || (match acap c (a_bk av) with Some cap => cap <? new_len | None => false end)
          then None
          else
            let m := if c_dg c then N.of_nat (e - s) else 0 in
            let range_drops := if c_dg c then map EDrop range else [] in
            if c_dg c && (k <? N.of_nat (e - s)) then
              Some (panic_res PUser (map EDrop (match a with Erased => firstn (S (N.to_nat k)) range | Typed => range end)
                                     ++ (if c_dg c then map EDrop ts else [])) kept nx')
            else if k - m <? n then
              let f := N.to_nat (k - m) in
              Some (panic_res PUser (range_drops ++ repeat ENext (S f) ++ (if c_dg c then map EDrop (skipn f ts) else [])) kept nx')
            else
              Some (ok_res [N.of_nat (e - s)] (range_drops ++ repeat ENext (N.to_nat n))
                           (set_a v (Some (with_xs av (VecSpec.sp_splice s e ts xs))) st) nx')
      end
    end
  end.

(** a lazy clone offered to push / insert whose Clone panics (fuse 0: the one call of user code the step makes): the
    refusals come first, unchanged; otherwise nothing is created, push leaves the vector as it was, insert has hidden
    the tail behind the insertion point while the Clone ran - it stays hidden (leaked), the prefix is intact *)
Definition after_clone_panic (st : astate) (v : nat) (a : avec) (idx : option N) : astate :=
  match idx with
  | None => st
  | Some i => set_a v (Some (with_xs a (firstn (N.to_nat i) (a_xs a)))) st
  end.
Definition sp_offer_lazy_f (c : cfg) (st : astate) (nx : N) (v : nat) (idx : option N) (src : nat) (sidx : N)
  : option sres :=
  if Nat.eqb src v then None
  else match get_a v st, get_a src st with
       | Some a, Some b =>
           if sidx <? N.of_nat (length (a_xs b)) then
             match put_value c a idx (tok c nx) with
             | inl _ => Some (panic_res PUser [] (after_clone_panic st v a idx) nx)
             | inr p => Some (panic_res p [] st nx)
             end
           else Some (panic_res PIndex [] st nx)
       | _, _ => None
       end.
(** ... of a value the caller owns: that value is destroyed by the caller afterwards, as always *)
Definition sp_offer_userlazy_f (c : cfg) (st : astate) (nx : N) (v : nat) (idx : option N) : option sres :=
  match get_a v st with
  | Some a =>
      let t := tok c nx in
      match put_value c a idx (tok c (nx + 1)) with
      | inl _ => Some (panic_res PUser (drop_ev c t) (after_clone_panic st v a idx) (nx + 1))
      | inr p => Some (panic_res p (drop_ev c t) st (nx + 1))
      end
  | None => None
  end.

(** clone() whose (k+1)-th Clone panics: k new values exist - and are leaked, the half-built clone is dropped
    with its length still 0 -, no vector of the world changes, nothing is destroyed *)
Definition sp_clone_f (c : cfg) (st : astate) (nx : N) (v dst : nat) (k : N) : option sres :=
  if Nat.eqb dst v then None
  else match get_a v st with
       | None => None
       | Some a =>
           let xs := a_xs a in
           if k <? N.of_nat (length xs)
           then Some (panic_res PUser (map (fun p => EClone (fst p) (snd p)) (combine (firstn (N.to_nat k) xs) (next_ids c nx (N.to_nat k))))
                                st (nx + k))
           else None
       end.

Definition spec_step_f (c : cfg) (st : astate) (nx : N) (fuse : option N) (o : op) : option sres :=
  match fuse with
  | None => spec_step c st nx o
  | Some k =>
      match o with
      | OClear _ v => sp_clear_f c st nx v k
      | ODropVec v =>
          (* the vector is dropped: as clear, and the storage is released also when a destructor panics *)
          match sp_clear_f c st nx v k with
          | Some r => Some {| s_out := s_out r; s_pk := s_pk r; s_ret := s_ret r; s_evs := s_evs r;
                              s_st := set_a v None st; s_nx := s_nx r |}
          | None => None
          end
      | ODrain a v sb eb [] FinDrop => sp_drain_f c st nx a v sb eb k
      | OSplice a v sb eb [] FinDrop rk n wrong_at claimed => sp_splice_f c st nx a v sb eb rk n wrong_at claimed k
      | OPop _ v KDrop => sp_take_drop_f c st nx v TPop 0 k
      | ORemove _ v idx KDrop => sp_take_drop_f c st nx v TRemove idx k
      | OSwapRemove _ v idx KDrop => sp_take_drop_f c st nx v TSwapRemove idx k
      | OClone v dst => sp_clone_f c st nx v dst k
      | OPush Erased v (SLazy _ src sidx) => if k =? 0 then sp_offer_lazy_f c st nx v None src sidx else None
      | OInsert Erased v idx (SLazy _ src sidx) => if k =? 0 then sp_offer_lazy_f c st nx v (Some idx) src sidx else None
      | OPush Erased v (SLazyUser _) => if k =? 0 then sp_offer_userlazy_f c st nx v None else None
      | OInsert Erased v idx (SLazyUser _) => if k =? 0 then sp_offer_userlazy_f c st nx v (Some idx) else None
      | _ => None
      end
  end.

(** a whole history whose steps may carry a fuse *)
Fixpoint spec_run_f (c : cfg) (st : astate) (nx : N) (ops : list (option N * op)) : option (list sres) :=
  match ops with
  | [] => Some []
  | (f, o) :: r =>
      match spec_step_f c st nx f o with
      | None => None
      | Some x => match spec_run_f c (s_st x) (s_nx x) r with
                  | None => None
                  | Some l => Some (x :: l)
                  end
      end
  end.
