#!/bin/sh
# rebuild the wip copies in dependency order
cd /verif/coq/wip
for f in WorldSpec WorldCore WorldSplice WorldRead WorldMore WorldDrain WorldWrong WorldProofs WorldFused OwnHistory; do
  timeout 900 coqc -Q ../AV AV -Q . WIP $f.v 2>&1 | tail -${TAILN:-25} || exit 1
  [ -f $f.vo ] || exit 1
done
