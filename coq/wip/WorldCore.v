(** * The byte-level machine refines the list specification: representation relation and one lemma per operation family. *)
From AV.Model Require Import Base Bytes Vec Ops Interp.
From AV.Spec Require Import VecSpec.
From AV.Proofs Require Import MemLemmas Rep VecProofs TempProofs RangeProofs CapProofs CloneProofs NoFault HandleProofs.
From WIP Require Import WorldSpec.
Arguments N.add : simpl never.
Arguments N.sub : simpl never.
Arguments N.mul : simpl never.

(** ** The representation relation *)

(** what the abstract vector [a] says about the machine vector [v] *)
Record VI (c : cfg) (v : vec) (a : avec) : Prop := {
  vi_rep : Rep c v (a_xs a);
  vi_bk : vbk v = a_bk a;
  vi_wf : bk_wf (a_bk a);
  vi_cap : match acap c (a_bk a) with Some cap => vcap v = cap | None => True end;
  vi_fits : match a_bk a with BStackN n size => stackn_fits n (c_sz c) size = true | _ => True end
}.

Definition slot_rel (c : cfg) (ov : option vec) (oa : option avec) : Prop :=
  match ov, oa with
  | None, None => True
  | Some v, Some a => VI c v a
  | _, _ => False
  end.
(** slot [n] of a world / abstract state ([None]: no vector there) *)
Definition slot {A} (n : nat) (l : list (option A)) : option A := nth n l None.
Definition WRep (c : cfg) (w : world) (st : astate) : Prop :=
  forall n, slot_rel c (slot n (wv w)) (slot n st).

Lemma nth_error_slot {A} (l : list (option A)) n :
  match nth_error l n with Some (Some x) => Some x | _ => None end = slot n l.
Proof.
  unfold slot. revert n. induction l as [|y l IH]; intros n; destruct n; cbn [nth_error nth]; auto.
  destruct y; reflexivity.
Qed.
Lemma get_vec_slot v w : get_vec v w = slot v (wv w).
Proof. unfold get_vec. apply nth_error_slot. Qed.
Lemma get_a_slot v st : get_a v st = slot v st.
Proof. unfold get_a. apply nth_error_slot. Qed.

Lemma slot_set_nth {A} (l : list (option A)) n m x :
  slot n (set_nth m x None l) = if Nat.eqb n m then x else slot n l.
Proof.
  unfold slot. revert l n. induction m as [|m IH]; intros l n.
  - destruct l as [|y l]; destruct n as [|n]; cbn [set_nth nth Nat.eqb]; auto. destruct n; reflexivity.
  - destruct l as [|y l]; destruct n as [|n]; cbn [set_nth nth Nat.eqb]; auto.
    rewrite IH. destruct (Nat.eqb n m); [reflexivity|]. destruct n; reflexivity.
Qed.

Lemma wrep_get c w st v a :
  WRep c w st -> get_a v st = Some a -> exists vv, get_vec v w = Some vv /\ VI c vv a.
Proof.
  intros H Hg. specialize (H v). rewrite get_a_slot in Hg. rewrite get_vec_slot. rewrite Hg in H.
  destruct (slot v (wv w)) as [vv|]; cbn in H; [|contradiction]. exists vv. auto.
Qed.
Lemma wrep_get_none c w st v :
  WRep c w st -> get_a v st = None -> get_vec v w = None.
Proof.
  intros H Hg. specialize (H v). rewrite get_a_slot in Hg. rewrite get_vec_slot. rewrite Hg in H.
  destruct (slot v (wv w)) as [vv|]; cbn in H; [contradiction|reflexivity].
Qed.

Lemma wrep_put c w st v ov oa u :
  WRep c w st -> slot_rel c ov oa -> WRep c (put_vec v ov u w) (set_a v oa st).
Proof.
  intros H Hs n. unfold put_vec, set_a. cbn [wv]. rewrite !slot_set_nth.
  destruct (Nat.eqb n v); [exact Hs|apply H].
Qed.
(** overwriting a slot with something related to what the abstract state already says *)
Lemma wrep_put_same c w st v vv a u :
  WRep c w st -> get_a v st = Some a -> VI c vv a -> WRep c (put_vec v (Some vv) u w) st.
Proof.
  intros H Hg HV n. unfold put_vec. cbn [wv]. rewrite slot_set_nth.
  destruct (Nat.eqb_spec n v) as [->|_]; [|apply H].
  rewrite get_a_slot in Hg. rewrite Hg. exact HV.
Qed.

Lemma get_vec_put_other v m ov u w :
  m <> v -> get_vec m (put_vec v ov u w) = get_vec m w.
Proof.
  intros Hne. rewrite !get_vec_slot. unfold put_vec. cbn [wv]. rewrite slot_set_nth.
  destruct (Nat.eqb_spec m v); [contradiction|reflexivity].
Qed.
Lemma get_a_set_other v m oa st :
  m <> v -> get_a m (set_a v oa st) = get_a m st.
Proof.
  intros Hne. rewrite !get_a_slot. unfold set_a. rewrite slot_set_nth.
  destruct (Nat.eqb_spec m v); [contradiction|reflexivity].
Qed.
Lemma get_vec_put_same v ov u w : get_vec v (put_vec v ov u w) = ov.
Proof. rewrite get_vec_slot. unfold put_vec. cbn [wv]. rewrite slot_set_nth, Nat.eqb_refl. reflexivity. Qed.
Lemma get_a_set_same v oa st : get_a v (set_a v oa st) = oa.
Proof. rewrite get_a_slot. unfold set_a. rewrite slot_set_nth, Nat.eqb_refl. reflexivity. Qed.
(** a slot written twice *)
Lemma put_put_slot n v o1 o2 u1 u2 w :
  slot n (wv (put_vec v o2 u2 (put_vec v o1 u1 w))) = slot n (wv (put_vec v o2 u2 w)).
Proof.
  unfold put_vec. cbn [wv]. rewrite !slot_set_nth. destruct (Nat.eqb n v); reflexivity.
Qed.

(** ** Running a vector computation inside the world *)
Lemma on_vec_ok {A} vid (m : M st A) w v a v' u' :
  get_vec vid w = Some v -> m (v, wuw w) = Ok a (v', u') ->
  on_vec vid m w = Ok a (put_vec vid (Some v') u' w).
Proof. intros Hg Hm. unfold on_vec. rewrite Hg, Hm. reflexivity. Qed.
Lemma on_vec_panic {A} vid (m : M st A) w v p v' u' :
  get_vec vid w = Some v -> m (v, wuw w) = Panic p (v', u') ->
  on_vec vid m w = Panic p (put_vec vid (Some v') u' w).
Proof. intros Hg Hm. unfold on_vec. rewrite Hg, Hm. reflexivity. Qed.
Lemma peek_vec_ok vid w v : get_vec vid w = Some v -> peek_vec vid w = Ok v w.
Proof. intros Hg. unfold peek_vec. rewrite Hg. reflexivity. Qed.

Lemma wuw_put v ov u w : wuw (put_vec v ov u w) = u.
Proof. reflexivity. Qed.

(** ** What one step may do to the world *)
Record step_ok (c : cfg) (w w' : world) (st' : astate) (evs : list event) (dnx : N) : Prop := {
  so_rep : WRep c w' st';
  so_nx : unext (wuw w') = unext (wuw w) + dnx;
  so_fuse : ufuse (wuw w') = None;
  so_evs : uevents (wuw w') = rev evs ++ uevents (wuw w)
}.

Lemma step_ok_trans c w w1 w2 st1 st2 e1 e2 d1 d2 :
  step_ok c w w1 st1 e1 d1 -> step_ok c w1 w2 st2 e2 d2 -> step_ok c w w2 st2 (e1 ++ e2) (d1 + d2).
Proof.
  intros [R1 N1 F1 E1] [R2 N2 F2 E2]. constructor; auto.
  - rewrite N2, N1. lia.
  - rewrite E2, E1, rev_app_distr, app_assoc. reflexivity.
Qed.

Lemma wrep_wv c w w' st : wv w' = wv w -> WRep c w st -> WRep c w' st.
Proof. unfold WRep. intros ->. auto. Qed.

Lemma uevents_emit_user e u : is_user_event e = true -> uevents (emit e u) = e :: uevents u.
Proof. intros H. unfold uevents, emit. cbn [ulog filter]. rewrite H. reflexivity. Qed.

Lemma same_user_events u u' : same_user u u' -> uevents u' = uevents u /\ unext u' = unext u /\ ufuse u' = ufuse u.
Proof. intros (A & B & C). auto. Qed.

(** ** Capacity: the abstract "full" against the machine state *)
Lemma acap_fixed c bk cap : acap c bk = Some cap -> fixed_backend bk.
Proof. destruct bk; cbn [acap fixed_backend]; intros H; try discriminate; exact I. Qed.
Lemma acap_none_not_fixed c bk : acap c bk = None -> ~ fixed_backend bk.
Proof. destruct bk; cbn [acap fixed_backend]; intros H F; try discriminate; exact F. Qed.

Lemma vi_full_true c v a : VI c v a -> full c a = true -> vlen v = vcap v /\ fixed_backend (vbk v).
Proof.
  intros [HR Hbk Hwf Hcap Hfits] Hf. unfold full in Hf.
  destruct (acap c (a_bk a)) as [cap|] eqn:E; [|discriminate].
  apply N.leb_le in Hf. pose proof (rep_len _ _ _ HR). pose proof (rep_cap _ _ _ HR).
  split; [lia|]. rewrite Hbk. eapply acap_fixed; eauto.
Qed.
Lemma vi_full_false c v a :
  VI c v a -> full c a = false -> can_take c v 1 -> vlen v < vcap v \/ grow_ok c v (vcap v + 1).
Proof.
  intros [HR Hbk Hwf Hcap Hfits] Hf Hc. unfold full in Hf.
  pose proof (rep_len _ _ _ HR). pose proof (rep_cap _ _ _ HR).
  destruct (acap c (a_bk a)) as [cap|] eqn:E.
  - apply N.leb_gt in Hf. left. lia.
  - destruct (N.lt_ge_cases (vlen v) (vcap v)) as [Hlt|Hge]; [left; exact Hlt|].
    assert (He : vlen v = vcap v) by lia.
    destruct Hc as [Hr|[Hg|Hx]].
    + lia.
    + right. rewrite <- He. exact Hg.
    + exfalso. rewrite Hbk in Hx. exact (acap_none_not_fixed _ _ E Hx).
Qed.

(** the vector invariant after a value has been added *)
Lemma vi_after_add c v a v' xs' :
  VI c v a -> Rep c v' xs' -> vbk v' = vbk v ->
  (vlen v < vcap v -> vcap v' = vcap v /\ vgen v' = vgen v) ->
  (fixed_backend (vbk v) -> vlen v < vcap v) ->
  VI c v' (with_xs a xs').
Proof.
  intros [HR Hbk Hwf Hcap Hfits] HR' Hbk' Hpres Hfx. constructor; cbn [with_xs a_bk a_xs]; auto.
  - congruence.
  - destruct (acap c (a_bk a)) as [cap|] eqn:E; [|exact I].
    assert (F : fixed_backend (vbk v)) by (rewrite Hbk; eapply acap_fixed; eauto).
    destruct (Hpres (Hfx F)) as [Hc _]. congruence.
Qed.

(** ** Dropping a rejected fresh value while unwinding *)
Lemma quiet_drop_fresh c o t w :
  (f_drop o = DOwned t \/ f_drop o = DReclaim t) ->
  exists w', quiet (drop_offer c o) w = Ok tt w' /\ wv w' = wv w /\
    unext (wuw w') = unext (wuw w) /\ ufuse (wuw w') = ufuse (wuw w) /\
    uevents (wuw w') = rev (drop_ev c t) ++ uevents (wuw w).
Proof.
  intros Hd. unfold quiet, drop_offer, harness_drop, drop_ev.
  destruct Hd as [-> | ->]; destruct (c_dg c); unfold emitw, ret, disarm; cbn [wv wuw ulog unext ufuse];
    eexists; (split; [reflexivity|]); cbn [wv wuw ulog unext ufuse rev app]; repeat split;
    unfold uevents, emit; cbn [ulog filter is_user_event]; reflexivity.
Qed.

(** ** push / insert of a fresh value *)
Definition raw_action (c : cfg) (idx : option N) : vsrc -> M st unit :=
  match idx with None => push_unchecked c | Some i => insert_unchecked c i end.

Lemma offer_check_pass c vid o (action : vsrc -> M st unit) w :
  f_ty o = c_ty c ->
  ((if f_checked o then assert_ (f_ty o =? c_ty c) PType else ret tt);; on_vec vid (action (f_src o))) w
  = on_vec vid (action (f_src o)) w.
Proof.
  intros ->. rewrite N.eqb_refl. unfold bind, assert_, ret. destruct (f_checked o); reflexivity.
Qed.

(** the raw operation on the machine vector against [put_value] on the list *)
Lemma raw_action_spec c vv a u idx t k :
  cfg_wf c -> VI c vv a -> tok_ok (szn c) t -> can_take c vv 1 ->
  match put_value c a idx t with
  | inl xs' => exists v' u', raw_action c idx (VBytes (enc (szn c) t) k) (vv, u) = Ok tt (v', u') /\
                 VI c v' (with_xs a xs') /\ same_user u u'
  | inr p => raw_action c idx (VBytes (enc (szn c) t) k) (vv, u) = Panic p (vv, u)
  end.
Proof.
  intros Hwf HV Ht Hc. assert (HV' := HV). destruct HV' as [HR Hbk Hbwf Hcap Hfits].
  pose proof (rep_len _ _ _ HR) as Hlen. pose proof (rep_cap _ _ _ HR) as Hle.
  unfold put_value, raw_action. destruct idx as [i|].
  - destruct (N.ltb_spec (N.of_nat (length (a_xs a))) i) as [Hoob|Hin].
    + apply (insert_oob c vv u (a_xs a)); assumption.
    + destruct (full c a) eqn:Hf.
      * destruct (vi_full_true c vv a HV Hf) as [He Hfx].
        apply (insert_full_fixed c vv u (a_xs a)); auto. lia.
      * pose proof (vi_full_false c vv a HV Hf Hc) as Hroom.
        assert (Hi : (N.to_nat i <= length (a_xs a))%nat) by lia.
        destruct (insert_ok c vv u (a_xs a) t k (N.to_nat i) Hwf HR Ht Hi Hroom)
          as (v' & u' & E & HR' & Hbk' & Hsu & Hpres).
        rewrite N2Nat.id in E. exists v', u'. split; [exact E|]. split; [|exact Hsu].
        apply (vi_after_add c vv a v'); auto.
        intros Fx. destruct Hroom as [Hlt|Hg]; [exact Hlt|].
        unfold grow_ok in Hg. destruct (vbk vv); cbn [fixed_backend] in Fx; contradiction.
  - destruct (full c a) eqn:Hf.
    + destruct (vi_full_true c vv a HV Hf) as [He Hfx].
      apply (push_full_fixed c vv u (a_xs a)); auto.
    + pose proof (vi_full_false c vv a HV Hf Hc) as Hroom.
      destruct (push_ok c vv u (a_xs a) t k Hwf HR Ht Hroom) as (v' & u' & E & HR' & Hbk' & Hsu & Hpres).
      exists v', u'. split; [exact E|]. split; [|exact Hsu].
      apply (vi_after_add c vv a v'); auto.
      intros Fx. destruct Hroom as [Hlt|Hg]; [exact Hlt|].
      unfold grow_ok in Hg. destruct (vbk vv); cbn [fixed_backend] in Fx; contradiction.
Qed.

(** ... and for a value that is CLONED into place (a lazy clone): one Clone call, made after the capacity check *)
Lemma raw_action_clone_spec c vv a u idx bs t0 k :
  cfg_wf c -> VI c vv a -> dec (szn c) bs = Some t0 -> ufuse u = None -> can_take c vv 1 ->
  let n := tok c (unext u) in
  match put_value c a idx n with
  | inl xs' => exists v' u', raw_action c idx (VClone bs k) (vv, u) = Ok tt (v', u') /\
                 VI c v' (with_xs a xs') /\ unext u' = unext u + 1 /\ ufuse u' = None /\
                 uevents u' = EClone t0 n :: uevents u
  | inr p => raw_action c idx (VClone bs k) (vv, u) = Panic p (vv, u)
  end.
Proof.
  intros Hwf HV Hd Hf Hc n. assert (HV' := HV). destruct HV' as [HR Hbk Hbwf Hcap Hfits].
  pose proof (rep_len _ _ _ HR) as Hlen. pose proof (rep_cap _ _ _ HR) as Hle.
  assert (Hroom_of : full c a = false -> vlen vv < vcap vv \/ grow_ok c vv (vcap vv + 1)).
  { intros Hfl. exact (vi_full_false c vv a HV Hfl Hc). }
  assert (Hfx_of : forall (Hroom : vlen vv < vcap vv \/ grow_ok c vv (vcap vv + 1)), fixed_backend (vbk vv) -> vlen vv < vcap vv).
  { intros Hroom Fx. destruct Hroom as [Hlt|Hg]; [exact Hlt|].
    unfold grow_ok in Hg. destruct (vbk vv); cbn [fixed_backend] in Fx; contradiction. }
  unfold put_value, raw_action. destruct idx as [i|].
  - destruct (N.ltb_spec (N.of_nat (length (a_xs a))) i) as [Hoob|Hin].
    + apply (insert_oob c vv u (a_xs a)); assumption.
    + destruct (full c a) eqn:Hfl.
      * destruct (vi_full_true c vv a HV Hfl) as [He Hfx].
        apply (insert_full_fixed c vv u (a_xs a)); auto. lia.
      * pose proof (Hroom_of eq_refl) as Hroom.
        assert (Hi : (N.to_nat i <= length (a_xs a))%nat) by lia.
        destruct (insert_clone_ok c vv u (a_xs a) bs t0 k (N.to_nat i) Hwf HR Hd Hf Hi Hroom)
          as (v' & u' & E & HR' & Hbk' & Hn' & Hf' & He' & Hpres).
        rewrite N2Nat.id in E. exists v', u'. split; [exact E|].
        split; [apply (vi_after_add c vv a v'); auto|]. auto.
  - destruct (full c a) eqn:Hfl.
    + destruct (vi_full_true c vv a HV Hfl) as [He Hfx].
      apply (push_full_fixed c vv u (a_xs a)); auto.
    + pose proof (Hroom_of eq_refl) as Hroom.
      destruct (push_clone_ok c vv u (a_xs a) bs t0 k Hwf HR Hd Hf Hroom)
        as (v' & u' & E & HR' & Hbk' & Hn' & Hf' & He' & Hpres).
      exists v', u'. split; [exact E|].
      split; [apply (vi_after_add c vv a v'); auto|]. auto.
Qed.

Lemma offer_fresh c w st vid a o idx t k :
  cfg_wf c -> WRep c w st -> get_a vid st = Some a -> ufuse (wuw w) = None ->
  f_ty o = c_ty c -> f_src o = VBytes (enc (szn c) t) k ->
  (f_drop o = DOwned t \/ f_drop o = DReclaim t) -> tok_ok (szn c) t ->
  (forall vv, get_vec vid w = Some vv -> can_take c vv 1) ->
  match put_value c a idx t with
  | inl xs' => exists w', offer_into c vid o (raw_action c idx) w = Ok tt w' /\
                 step_ok c w w' (set_a vid (Some (with_xs a xs')) st) [] 0
  | inr p => exists w', offer_into c vid o (raw_action c idx) w = Panic p w' /\
                 step_ok c w w' st (drop_ev c t) 0
  end.
Proof.
  intros Hwf HW Hg Hfuse Hty Hsrc Hdrop Ht Hadm.
  destruct (wrep_get c w st vid a HW Hg) as (vv & Hgv & HV).
  pose proof (raw_action_spec c vv a (wuw w) idx t k Hwf HV Ht (Hadm vv Hgv)) as Hspec.
  unfold offer_into, unwinding.
  destruct (put_value c a idx t) as [xs'|p].
  - destruct Hspec as (v' & u' & E & HV' & Hsu).
    destruct (same_user_events _ _ Hsu) as (He & Hn & Hf).
    exists (put_vec vid (Some v') u' w). split.
    + unfold bind at 1. unfold on_unwind. rewrite offer_check_pass by exact Hty.
      rewrite Hsrc. rewrite (on_vec_ok vid _ w vv tt v' u' Hgv E).
      unfold finish_offer. destruct Hdrop as [-> | ->]; reflexivity.
    + constructor.
      * apply wrep_put; [exact HW|exact HV'].
      * rewrite wuw_put. lia.
      * rewrite wuw_put. congruence.
      * rewrite wuw_put. cbn [rev app]. exact He.
  - set (w1 := put_vec vid (Some vv) (wuw w) w).
    destruct (quiet_drop_fresh c o t w1 Hdrop) as (w' & Eq & Hwv & Hn & Hf & He).
    exists w'. split.
    + unfold bind at 1. unfold on_unwind. rewrite offer_check_pass by exact Hty.
      rewrite Hsrc. rewrite (on_vec_panic vid _ w vv p vv (wuw w) Hgv Hspec).
      fold w1. rewrite Eq. reflexivity.
    + constructor.
      * apply (wrep_wv c w1 w' st Hwv). unfold w1.
        apply (wrep_put_same c w st vid vv a); assumption.
      * rewrite Hn. unfold w1. rewrite wuw_put. lia.
      * rewrite Hf. unfold w1. rewrite wuw_put. exact Hfuse.
      * rewrite He. unfold w1. rewrite wuw_put. reflexivity.
Qed.

(** ** The refinement statement for one [exec] *)
Definition exec_refines (c : cfg) (w : world) (o : op) (r : sres) : Prop :=
  match exec c o w with
  | Ok (out, ret) w' => s_out r = out /\ s_pk r = 0 /\ s_ret r = ret /\
                        step_ok c w w' (s_st r) (s_evs r) (s_nx r - unext (wuw w))
  | Panic p w' => s_out r = 2 /\ s_pk r = panic_code p /\ s_ret r = [] /\
                  step_ok c w w' (s_st r) (s_evs r) (s_nx r - unext (wuw w))
  | Fault _ => False
  end.

(** targets of the moves a (nested) sink performs *)
Fixpoint sink_dsts (sk : sink) : list nat :=
  match sk with
  | KPush d | KIns d _ => [d]
  | KMut k | KLazyDown _ k => sink_dsts k
  | KLazy _ d k => d :: sink_dsts k
  | _ => []
  end.

(** the allocator can serve one more element of vector [vid] (or its capacity is fixed) *)
Definition adm_vec (c : cfg) (w : world) (vid : nat) : Prop :=
  forall vv, get_vec vid w = Some vv -> can_take c vv 1.
(** ... several more: each of up to [m] pushes into a vector of a resizable backend may have to grow it (doubling
    on the heap); a bound that covers every capacity such a run can pass through *)
Definition roomy (c : cfg) (vv : vec) (m : N) : Prop :=
  fixed_backend (vbk vv) \/
  (resizable_backend (vbk vv) /\ 2 * (vlen vv + m) + 2 <= usize_max /\ c_sz c * (2 * (vlen vv + m) + 2) <= alloc_limit).
(** how many values a (nested) sink moves into vector [d] *)
Fixpoint sink_count (sk : sink) (d : nat) : N :=
  match sk with
  | KPush d' | KIns d' _ => if Nat.eqb d' d then 1 else 0
  | KMut k | KLazyDown _ k => sink_count k d
  | KLazy n d' k => (if Nat.eqb d' d then n else 0) + sink_count k d
  | _ => 0
  end.
(** ... and the calls of a drain pattern *)
Fixpoint pat_count (pat : list (bool * sink)) (d : nat) : N :=
  match pat with
  | [] => 0
  | (_, sk) :: rest => sink_count sk d + pat_count rest d
  end.
Fixpoint pat_dsts (pat : list (bool * sink)) : list nat :=
  match pat with
  | [] => []
  | (_, sk) :: rest => sink_dsts sk ++ pat_dsts rest
  end.
Definition adm_many (c : cfg) (w : world) (d : nat) (m : N) : Prop :=
  forall vv, get_vec d w = Some vv -> (1 <= m -> can_take c vv 1) /\ (2 <= m -> roomy c vv m).
Lemma adm_many_vec c w d m : 1 <= m -> adm_many c w d m -> adm_vec c w d.
Proof. intros Hm H vv Hg. exact (proj1 (H vv Hg) Hm). Qed.
Lemma adm_vec_many1 c w d : adm_vec c w d -> adm_many c w d 1.
Proof. intros H vv Hg. split; [intros _; exact (H vv Hg)|]. intros; lia. Qed.
(** the sinks without a sink inside: at most one move *)
Lemma base_sink_adm c w vid sk :
  match sk with KMut _ | KLazy _ _ _ | KLazyDown _ _ => False | _ => True end ->
  (forall d, In d (sink_dsts sk) -> d <> vid -> adm_many c w d (sink_count sk d)) ->
  forall d, In d (sink_dsts sk) -> d <> vid -> adm_vec c w d.
Proof.
  intros Hb H d Hin Hne. specialize (H d Hin Hne).
  destruct sk; cbn [sink_dsts sink_count In] in *; try contradiction;
    (destruct Hin as [<-|[]]; rewrite Nat.eqb_refl in H; apply (adm_many_vec c w _ 1); [lia|exact H]).
Qed.
(** a growth request of [n] more elements can be served (or needs no allocation / is refused by the checks) *)
Definition adm_reserve (c : cfg) (w : world) (vid : nat) (n : N) : Prop :=
  forall vv, get_vec vid w = Some vv ->
    (vlen vv + n <= vcap vv /\ c_sz c * vcap vv <= alloc_limit) \/ fixed_backend (vbk vv) \/ usize_max < vlen vv + n \/
    (grow_ok c vv (vlen vv + n) /\ c_sz c * (vlen vv + n) <= alloc_limit) \/
    (* ... or is refused before it reaches the allocator: its size in bytes is not representable or no valid layout *)
    (resizable_backend (vbk vv) /\ c_sz c * vcap vv <= alloc_limit /\ layout_limit c (vbk vv) < c_sz c * (vlen vv + n)).
Definition adm_shrink (c : cfg) (w : world) (vid : nat) : Prop :=
  forall vv, get_vec vid w = Some vv -> c_sz c * vcap vv <= alloc_limit.
(** the contents of vector [v] fit a fresh storage of the same backend kind (always, for a fixed capacity) *)
Definition adm_clone (c : cfg) (w : world) (v : nat) : Prop :=
  forall sv, get_vec v w = Some sv ->
    fixed_backend (vbk sv) \/
    (vlen sv <= usize_max /\
     c_sz c * grow_target {| vlen := 0; vcap := 0; vmem := []; vgen := 0; vbk := vbk sv |} (vlen sv) <= alloc_limit).
(** the allocator can serve the request (and the prebuilt storage of the relocating backend) *)
Definition adm_withcap (c : cfg) (bk : bkind) (n : N) : Prop :=
  bk_wf bk /\ n <= usize_max /\
  (match bk with
   | BReloc c0 => c_sz c * N.max n c0 <= alloc_limit
   | _ => c_sz c * n <= alloc_limit
   end \/
   (* ... or the request is refused before it reaches the allocator *)
   (layout_limit c bk < c_sz c * n /\ match bk with BReloc c0 => c_sz c * c0 <= alloc_limit | _ => True end)).

(** the result of a splice of [n] replacement values into the range fits, can be grown to, or is refused by the checks *)
Definition adm_splice (c : cfg) (w : world) (vid : nat) (sb eb : bound) (n : N) : Prop :=
  forall vv, get_vec vid w = Some vv ->
    match range_of_bounds usize_max (vlen vv) (to_sb sb) (to_sb eb) with
    | None => True
    | Some (s, e) =>
        let nl := s + n + (vlen vv - e) in
        nl <= vcap vv \/ fixed_backend (vbk vv) \/ usize_max < nl \/ grow_ok c vv nl
    end.
Definition admissible (c : cfg) (w : world) (o : op) : Prop :=
  match o with
  | OSplice _ v sb eb pat _ _ _ _ cl =>
      adm_splice c w v sb eb cl /\ forall d, In d (pat_dsts pat) -> adm_many c w d (pat_count pat d)
  | OSpareWrite _ v k => forall vv, get_vec v w = Some vv -> vlen vv + k <= vcap vv
  | OWithCapacity _ bk n => adm_withcap c bk n
  | OPush _ v _ | OInsert _ v _ _ => adm_vec c w v
  | OPop _ _ k | ORemove _ _ _ k | OSwapRemove _ _ _ k => forall d, In d (sink_dsts k) -> adm_many c w d (sink_count k d)
  | ODrain _ _ _ _ pat _ => forall d, In d (pat_dsts pat) -> adm_many c w d (pat_count pat d)
  | ONew _ bk | OCloneEmptyIn _ _ bk => bk_wf bk
  | OClone v _ => adm_clone c w v
  | OReserve v n | OReserveExact v n => adm_reserve c w v n
  | OShrinkToFit v | OShrinkTo v _ => adm_shrink c w v
  | _ => True
  end.

Lemma tok_tok_ok c nx : tok_ok (szn c) (tok c nx).
Proof.
  unfold tok_ok, tok, szn. intros H. destruct (N.eqb_spec (c_sz c) 0) as [_|NE]; [reflexivity|lia].
Qed.

Definition bump (w : world) : world :=
  {| wv := wv w; wuw := {| ulog := ulog (wuw w); unext := unext (wuw w) + 1; ufuse := ufuse (wuw w) |} |}.

Lemma step_ok_bump c w w' st evs d :
  step_ok c (bump w) w' st evs d -> step_ok c w w' st evs (1 + d).
Proof.
  intros [R Nx F E]. constructor; auto.
  - rewrite Nx. unfold bump. cbn [wuw unext]. lia.
Qed.
Lemma wrep_bump c w st : WRep c w st -> WRep c (bump w) st.
Proof. apply wrep_wv. reflexivity. Qed.
Lemma get_vec_bump v w : get_vec v (bump w) = get_vec v w.
Proof. reflexivity. Qed.

Lemma make_offer_fresh c s w :
  fresh_src s = true ->
  exists o k, make_offer c s w = Ok o (bump w) /\
    f_ty o = c_ty c /\ f_src o = VBytes (enc (szn c) (tok c (unext (wuw w)))) k /\
    (f_drop o = DOwned (tok c (unext (wuw w))) \/ f_drop o = DReclaim (tok c (unext (wuw w)))).
Proof.
  intros Hs. destruct s; try discriminate; unfold make_offer, bind, freshw, ret, enc_c, bump, tok;
    cbn [f_ty f_src f_drop]; eexists _, _; (split; [reflexivity|]); cbn [f_ty f_src f_drop]; auto.
Qed.

Definition unchecked (o : offer) : offer :=
  {| f_ty := f_ty o; f_src := f_src o; f_checked := false; f_drop := f_drop o |}.

Lemma exec_offer c w st a vid s idx :
  cfg_wf c -> WRep c w st -> ufuse (wuw w) = None -> fresh_src s = true ->
  adm_vec c w vid ->
  forall r, sp_offer c st (unext (wuw w)) vid idx = Some r ->
  match (do o <- make_offer c s;
         let o := match a with Typed => unchecked o | Erased => o end in
         offer_into c vid o (raw_action c idx);; ret (0, @nil N)) w with
  | Ok (out, ret) w' => s_out r = out /\ s_pk r = 0 /\ s_ret r = ret /\
                        step_ok c w w' (s_st r) (s_evs r) (s_nx r - unext (wuw w))
  | Panic p w' => s_out r = 2 /\ s_pk r = panic_code p /\ s_ret r = [] /\
                  step_ok c w w' (s_st r) (s_evs r) (s_nx r - unext (wuw w))
  | Fault _ => False
  end.
Proof.
  intros Hwf HW Hfuse Hs Hadm r Hr.
  unfold sp_offer in Hr. destruct (get_a vid st) as [av|] eqn:Hg; [|discriminate].
  destruct (make_offer_fresh c s w Hs) as (o & k & Emk & Hty & Hsrc & Hdrop).
  set (t := tok c (unext (wuw w))) in *.
  set (o' := match a with Typed => unchecked o | Erased => o end).
  assert (Hty' : f_ty o' = c_ty c) by (unfold o'; destruct a; exact Hty).
  assert (Hsrc' : f_src o' = VBytes (enc (szn c) t) k) by (unfold o'; destruct a; exact Hsrc).
  assert (Hdrop' : f_drop o' = DOwned t \/ f_drop o' = DReclaim t) by (unfold o'; destruct a; exact Hdrop).
  pose proof (offer_fresh c (bump w) st vid av o' idx t k Hwf (wrep_bump _ _ _ HW) Hg Hfuse Hty' Hsrc' Hdrop'
                (tok_tok_ok c _)) as Hof.
  specialize (Hof (fun vv Hgv => Hadm vv Hgv)).
  unfold bind at 1. rewrite Emk. fold o'.
  destruct (put_value c av idx t) as [xs'|p]; injection Hr as <-.
  - destruct Hof as (w' & E & Hso). unfold bind. rewrite E. unfold ret.
    cbn [ok_res s_out s_pk s_ret s_st s_evs s_nx].
    split; [reflexivity|split; [reflexivity|split; [reflexivity|]]].
    replace (unext (wuw w) + 1 - unext (wuw w)) with (1 + 0) by lia.
    apply step_ok_bump. exact Hso.
  - destruct Hof as (w' & E & Hso). unfold bind. rewrite E.
    cbn [panic_res s_out s_pk s_ret s_st s_evs s_nx].
    split; [reflexivity|split; [reflexivity|split; [reflexivity|]]].
    replace (unext (wuw w) + 1 - unext (wuw w)) with (1 + 0) by lia.
    apply step_ok_bump. exact Hso.
Qed.

(** ** Removal handles *)
Lemma vi_take c vv a k i v' :
  VI c vv a -> Rep c v' (take_result k i (a_xs a)) -> vcap v' = vcap vv -> vbk v' = vbk vv ->
  VI c v' (with_xs a (take_result k i (a_xs a))).
Proof.
  intros [HR Hbk Hwf Hcap Hfits] HR' Hc Hb. constructor; cbn [with_xs a_bk a_xs]; auto; try congruence.
  destruct (acap c (a_bk a)); [congruence|exact I].
Qed.
Lemma vi_prefix c vv a i :
  VI c vv a -> (i <= length (a_xs a))%nat ->
  VI c (with_len (N.of_nat i) vv) (with_xs a (firstn i (a_xs a))).
Proof.
  intros [HR Hbk Hwf Hcap Hfits] Hi. constructor; cbn [with_xs a_bk a_xs with_len vbk vcap]; auto.
  apply rep_prefix; assumption.
Qed.

Lemma take_result_eq k i xs : take_result k i xs = temp_result k i xs.
Proof. reflexivity. Qed.

(** opening the handle: the world while it is alive *)
Lemma temp_open_some c w st vid a k idx i :
  WRep c w st -> get_a vid st = Some a -> temp_req k i (a_xs a) -> (k <> TPop -> idx = N.of_nat i) ->
  exists vv h, get_vec vid w = Some vv /\ VI c vv a /\ temp_for c vv (a_xs a) k i h /\
    temp_open c vid k idx w = Ok (Some h) (put_vec vid (Some (with_len (N.of_nat i) vv)) (wuw w) w).
Proof.
  intros HW Hg Hreq Hidx.
  destruct (wrep_get c w st vid a HW Hg) as (vv & Hgv & HV).
  pose proof (vi_rep _ _ _ HV) as HR. pose proof (rep_len _ _ _ HR) as Hlen.
  destruct (temp_new_spec c vv (wuw w) (a_xs a) k i HR Hreq) as (h & En & Hfor).
  exists vv, h. split; [exact Hgv|]. split; [exact HV|]. split; [exact Hfor|].
  destruct Hreq as [Hi Hpop].
  unfold temp_open. unfold bind at 1. rewrite (peek_vec_ok vid w vv Hgv).
  destruct k.
  - destruct (N.eqb_spec (vlen vv) 0) as [Z|NZ]; [lia|].
    assert (En' : temp_new c TPop 0 (vv, wuw w) = Ok h (with_len (N.of_nat i) vv, wuw w)) by exact En.
    unfold bind. rewrite (on_vec_ok vid _ w vv h _ _ Hgv En'). reflexivity.
  - rewrite (Hidx ltac:(discriminate)).
    unfold bind at 1. unfold assert_.
    destruct (N.ltb_spec (N.of_nat i) (vlen vv)) as [_|Hge]; [|lia]. unfold ret at 1.
    unfold bind. rewrite (on_vec_ok vid _ w vv h _ _ Hgv En). reflexivity.
  - rewrite (Hidx ltac:(discriminate)).
    unfold bind at 1. unfold assert_.
    destruct (N.ltb_spec (N.of_nat i) (vlen vv)) as [_|Hge]; [|lia]. unfold ret at 1.
    unfold bind. rewrite (on_vec_ok vid _ w vv h _ _ Hgv En). reflexivity.
Qed.

Lemma temp_open_pop_empty c w st vid a :
  WRep c w st -> get_a vid st = Some a -> a_xs a = [] -> temp_open c vid TPop 0 w = Ok None w.
Proof.
  intros HW Hg Hx. destruct (wrep_get c w st vid a HW Hg) as (vv & Hgv & HV).
  pose proof (rep_len _ _ _ (vi_rep _ _ _ HV)) as Hlen. rewrite Hx in Hlen. cbn in Hlen.
  unfold temp_open. unfold bind. rewrite (peek_vec_ok vid w vv Hgv). rewrite Hlen. reflexivity.
Qed.
Lemma temp_open_oob c w st vid a k idx :
  WRep c w st -> get_a vid st = Some a -> k <> TPop -> N.of_nat (length (a_xs a)) <= idx ->
  temp_open c vid k idx w = Panic PIndex w.
Proof.
  intros HW Hg Hk Hi. destruct (wrep_get c w st vid a HW Hg) as (vv & Hgv & HV).
  pose proof (rep_len _ _ _ (vi_rep _ _ _ HV)) as Hlen.
  unfold temp_open. unfold bind at 1. rewrite (peek_vec_ok vid w vv Hgv).
  destruct k; [congruence| |]; unfold bind, assert_;
    (destruct (N.ltb_spec idx (vlen vv)) as [Hlt|_]; [lia|reflexivity]).
Qed.

Lemma uevents_app_drop c t u u' :
  ulog u' = (if c_dg c then [EDrop t] else []) ++ ulog u -> uevents u' = rev (drop_ev c t) ++ uevents u.
Proof.
  intros H. unfold uevents, drop_ev. rewrite H. destruct (c_dg c); reflexivity.
Qed.

Section Alive.
(** the handle for element [i] of vector [vid] is alive *)
Variables (c : cfg) (w : world) (st : astate) (vid : nat) (a : avec) (k : tkind) (i : nat)
          (vv : vec) (h : temp).
Hypothesis HW : WRep c w st.
Hypothesis Hg : get_a vid st = Some a.
Hypothesis Hreq : temp_req k i (a_xs a).
Hypothesis Hgv : get_vec vid w = Some vv.
Hypothesis HV : VI c vv a.
Hypothesis Hfor : temp_for c vv (a_xs a) k i h.
Hypothesis Hfuse : ufuse (wuw w) = None.
Let xs := a_xs a.
Let t := nth i xs 0.
Let wl := with_len (N.of_nat i) vv.
Let w1 := put_vec vid (Some wl) (wuw w) w.
Let rest := set_a vid (Some (with_xs a (take_result k i xs))) st.

Lemma alive_tok : tok_ok (szn c) t.
Proof.
  pose proof (rep_tok _ _ _ (vi_rep _ _ _ HV)) as Ht. rewrite Forall_forall in Ht.
  apply Ht. apply nth_In. apply Hreq.
Qed.

Lemma sink_drop known :
  exists w2, apply_sink c vid known h KDrop w1 = Ok [] w2 /\ step_ok c w w2 rest (drop_ev c t) 0.
Proof.
  pose proof (vi_rep _ _ _ HV) as HR.
  destruct (temp_drop_spec c vv (wuw w) xs k i h known HR Hreq Hfor Hfuse)
    as (v' & u' & E & HR' & Hc & Hb & Hn & Hf & Hl).
  exists (put_vec vid (Some v') u' w1). split.
  - cbn [apply_sink]. unfold bind.
    rewrite (on_vec_ok vid _ w1 wl tt v' u'); [reflexivity| apply get_vec_put_same | exact E].
  - constructor.
    + intros n. unfold w1. rewrite put_put_slot.
      apply (wrep_put c w st vid (Some v') (Some (with_xs a (take_result k i xs))) u' HW).
      apply (vi_take c vv a k i v' HV HR' Hc Hb).
    + rewrite wuw_put. lia.
    + rewrite wuw_put. exact Hf.
    + rewrite wuw_put. apply uevents_app_drop. exact Hl.
Qed.

Lemma sink_down known :
  exists w2, apply_sink c vid known h KDown w1 = Ok [t] w2 /\ step_ok c w w2 rest (drop_ev c t) 0.
Proof.
  pose proof (vi_rep _ _ _ HV) as HR.
  pose proof (temp_bytes_spec c vv (wuw w) xs k i h HR Hreq Hfor) as Eb.
  destruct (temp_consume_spec c vv (wuw w) xs k i h known HR Hreq Hfor) as (v' & Ec & HR' & Hc & Hb & _).
  set (w1a := put_vec vid (Some wl) (wuw w) w1).
  set (w1b := put_vec vid (Some v') (wuw w) w1a).
  set (w2 := {| wv := wv w1b; wuw := if c_dg c then emit (EDrop t) (wuw w) else wuw w |}).
  exists w2. split.
  - cbn [apply_sink]. unfold bind at 1.
    rewrite (on_vec_ok vid _ w1 wl (enc (szn c) t) wl (wuw w)); [| apply get_vec_put_same | exact Eb].
    fold w1a. unfold bind at 1. unfold decode. fold t. rewrite (dec_enc _ _ alive_tok). unfold ret at 1.
    unfold bind at 1.
    rewrite (on_vec_ok vid _ w1a wl tt v' (wuw w)); [| apply get_vec_put_same | exact Ec].
    fold w1b. unfold bind, harness_drop, w2. destruct (c_dg c); reflexivity.
  - constructor.
    + apply (wrep_wv c w1b w2); [reflexivity|].
      intros n. unfold w1b, w1a, w1. rewrite !put_put_slot.
      apply (wrep_put c w st vid (Some v') (Some (with_xs a (take_result k i xs))) (wuw w) HW).
      apply (vi_take c vv a k i v' HV HR' Hc Hb).
    + unfold w2. cbn [wuw]. rewrite N.add_0_r. destruct (c_dg c); reflexivity.
    + unfold w2. cbn [wuw]. destruct (c_dg c); cbn [emit ufuse]; exact Hfuse.
    + unfold w2, drop_ev. cbn [wuw]. destruct (c_dg c); [|reflexivity].
      apply uevents_emit_user. reflexivity.
Qed.

Lemma sink_forget known :
  apply_sink c vid known h KForget w1 = Ok [] w1 /\
  step_ok c w w1 (set_a vid (Some (with_xs a (firstn i xs))) st) [] 0.
Proof.
  split; [reflexivity|]. constructor.
  - apply (wrep_put c w st vid (Some wl) (Some (with_xs a (firstn i xs))) (wuw w) HW).
    apply vi_prefix; [exact HV|]. apply Nat.lt_le_incl. exact (proj1 Hreq).
  - unfold w1. rewrite wuw_put. lia.
  - unfold w1. rewrite wuw_put. exact Hfuse.
  - unfold w1. rewrite wuw_put. reflexivity.
Qed.
End Alive.

Lemma disarm_none u : ufuse u = None -> disarm u = u.
Proof. destruct u as [l n f]. cbn. intros ->. reflexivity. Qed.
Lemma quiet_none {A} (m : M world A) w a w' :
  ufuse (wuw w) = None -> m w = Ok a w' -> ufuse (wuw w') = None -> quiet m w = Ok a w'.
Proof.
  intros Hf E Hf'. unfold quiet. rewrite Hf, (disarm_none _ Hf).
  assert (Hw : {| wv := wv w; wuw := wuw w |} = w) by (destruct w; reflexivity).
  rewrite Hw, E. f_equal. destruct w' as [vs [l n f]]. cbn in *. rewrite Hf'. reflexivity.
Qed.

Section AliveMove.
(** ... and the removed value is moved into ANOTHER vector [dst] *)
Variables (c : cfg) (w : world) (st : astate) (vid : nat) (a : avec) (k : tkind) (i : nat)
          (vv : vec) (h : temp) (dst : nat) (b : avec).
Hypothesis Hwf : cfg_wf c.
Hypothesis HW : WRep c w st.
Hypothesis Hg : get_a vid st = Some a.
Hypothesis Hreq : temp_req k i (a_xs a).
Hypothesis Hgv : get_vec vid w = Some vv.
Hypothesis HV : VI c vv a.
Hypothesis Hfor : temp_for c vv (a_xs a) k i h.
Hypothesis Hfuse : ufuse (wuw w) = None.
Hypothesis Hne : dst <> vid.
Hypothesis Hgb : get_a dst st = Some b.
Hypothesis Hadm : adm_vec c w dst.
Let xs := a_xs a.
Let t := nth i xs 0.
Let wl := with_len (N.of_nat i) vv.
Let w1 := put_vec vid (Some wl) (wuw w) w.
Let rest := set_a vid (Some (with_xs a (take_result k i xs))) st.

Definition move_sink (idx : option N) : sink :=
  match idx with None => KPush dst | Some j => KIns dst j end.

Lemma sink_move known idx :
  match put_value c b idx t with
  | inl ys' => exists w2, apply_sink c vid known h (move_sink idx) w1 = Ok [] w2 /\
                 step_ok c w w2 (set_a dst (Some (with_xs b ys')) rest) [] 0
  | inr p => exists w2, apply_sink c vid known h (move_sink idx) w1 = Panic p w2 /\
                 step_ok c w w2 rest (drop_ev c t) 0
  end.
Proof.
  pose proof (vi_rep _ _ _ HV) as HR.
  pose proof (temp_bytes_spec c vv (wuw w) xs k i h HR Hreq Hfor) as Eb.
  destruct (wrep_get c w st dst b HW Hgb) as (dv & Hgd & HVd).
  set (w1a := put_vec vid (Some wl) (wuw w) w1).
  assert (Hgd1 : get_vec dst w1a = Some dv).
  { unfold w1a, w1. rewrite !get_vec_put_other by exact Hne. exact Hgd. }
  assert (Htok : tok_ok (szn c) t) by (apply (alive_tok c a k i vv); assumption).
  pose proof (raw_action_spec c dv b (wuw w) idx t false Hwf HVd Htok (Hadm dv Hgd)) as Hspec.
  set (o := {| f_ty := c_ty c; f_src := VBytes (enc (szn c) t) false; f_checked := true; f_drop := DTemp vid h |}).
  assert (Hsink : apply_sink c vid known h (move_sink idx) w1
                  = (offer_into c dst o (raw_action c idx);; ret []) w1a).
  { destruct idx as [j|]; cbn [move_sink apply_sink raw_action]; unfold bind at 1;
      rewrite (on_vec_ok vid _ w1 wl (enc (szn c) t) wl (wuw w)); try (apply get_vec_put_same); try exact Eb;
      reflexivity. }
  rewrite Hsink. unfold offer_into, unwinding.
  destruct (put_value c b idx t) as [ys'|p].
  - destruct Hspec as (dv' & u' & E & HVd' & Hsu).
    destruct (same_user_events _ _ Hsu) as (He & Hn & Hf).
    destruct (temp_consume_spec c vv u' xs k i h false HR Hreq Hfor) as (v' & Ec & HR' & Hc & Hb & _).
    set (w3 := put_vec dst (Some dv') u' w1a).
    exists (put_vec vid (Some v') u' w3). split.
    + unfold bind at 1. unfold bind at 1. unfold on_unwind. rewrite offer_check_pass by reflexivity.
      cbn [f_src o]. rewrite (on_vec_ok dst _ w1a dv tt dv' u' Hgd1 E). fold w3.
      unfold finish_offer. cbn [f_drop o].
      rewrite (on_vec_ok vid _ w3 wl tt v' u'); [reflexivity| |exact Ec].
      unfold w3, w1a. rewrite get_vec_put_other by (intros X; apply Hne; symmetry; exact X).
      apply get_vec_put_same.
    + constructor.
      * intros n. unfold w3, w1a, w1, rest, put_vec, set_a. cbn [wv]. rewrite !slot_set_nth.
        destruct (Nat.eqb_spec n vid) as [->|Hnv].
        -- destruct (Nat.eqb_spec vid dst) as [X|_]; [exfalso; apply Hne; symmetry; exact X|].
           apply (vi_take c vv a k i v' HV HR' Hc Hb).
        -- destruct (Nat.eqb_spec n dst) as [->|Hnd]; [exact HVd'|apply HW].
      * rewrite wuw_put. lia.
      * rewrite wuw_put. congruence.
      * rewrite wuw_put. cbn [rev app]. exact He.
  - destruct (temp_drop_spec c vv (wuw w) xs k i h false HR Hreq Hfor Hfuse)
      as (v' & u' & Ed & HR' & Hc & Hb & Hn & Hf & Hl).
    set (w3 := put_vec dst (Some dv) (wuw w) w1a).
    exists (put_vec vid (Some v') u' w3). split.
    + unfold bind at 1. unfold bind at 1. unfold on_unwind. rewrite offer_check_pass by reflexivity.
      cbn [f_src o]. rewrite (on_vec_panic dst _ w1a dv p dv (wuw w) Hgd1 Hspec). fold w3.
      assert (Eq : quiet (drop_offer c o) w3 = Ok tt (put_vec vid (Some v') u' w3)).
      { apply quiet_none; [exact Hfuse| |exact Hf].
        unfold drop_offer. cbn [f_drop o].
        apply (on_vec_ok vid _ w3 wl tt v' u'); [|exact Ed].
        unfold w3, w1a. rewrite get_vec_put_other by (intros X; apply Hne; symmetry; exact X).
        apply get_vec_put_same. }
      rewrite Eq. reflexivity.
    + constructor.
      * intros n. unfold w3, w1a, w1, rest, put_vec, set_a. cbn [wv]. rewrite !slot_set_nth.
        destruct (Nat.eqb_spec n vid) as [->|Hnv].
        -- apply (vi_take c vv a k i v' HV HR' Hc Hb).
        -- destruct (Nat.eqb_spec n dst) as [->|Hnd]; [|apply HW].
           rewrite get_a_slot in Hgb. rewrite Hgb. exact HVd.
      * rewrite wuw_put. lia.
      * rewrite wuw_put. exact Hf.
      * rewrite wuw_put. apply uevents_app_drop. exact Hl.
Qed.
End AliveMove.

(** ** One [exec] refines one [spec_step] *)
Definition res_matches (c : cfg) (w : world) (x : res world (N * list N)) (r : sres) : Prop :=
  match x with
  | Ok (out, ret) w' => s_out r = out /\ s_pk r = 0 /\ s_ret r = ret /\
                        step_ok c w w' (s_st r) (s_evs r) (s_nx r - unext (wuw w))
  | Panic p w' => s_out r = 2 /\ s_pk r = panic_code p /\ s_ret r = [] /\
                  step_ok c w w' (s_st r) (s_evs r) (s_nx r - unext (wuw w))
  | Fault _ => False
  end.

Lemma step_ok_refl c w st : WRep c w st -> ufuse (wuw w) = None -> step_ok c w w st [] 0.
Proof. intros H F. constructor; auto. lia. Qed.

Definition take_prog (c : cfg) (a : api) (v : nat) (k : tkind) (idx : N) (sk : sink) : M world (N * list N) :=
  do oh <- temp_open c v k idx;
  match oh with
  | None => ret (1, [])
  | Some h => do r <- apply_sink c v (known_of a) h sk; ret (0, r)
  end.

Lemma read_ptr_with_len c p n v u :
  read_ptr c p (with_len n v, u)
  = match read_ptr c p (v, u) with
    | Ok bs _ => Ok bs (with_len n v, u)
    | Panic q _ => Panic q (with_len n v, u)
    | Fault f => Fault f
    end.
Proof.
  destruct v as [l cp m g bk].
  unfold read_ptr, check_range, bind, getv, fault_, ret, with_len.
  cbv beta iota delta [fst snd vlen vcap vmem vgen vbk].
  destruct (negb (pgen p =? g)); [reflexivity|].
  destruct ((N.of_nat (poff p) + N.of_nat (szn c) <=? cp * c_sz c) && (poff p + szn c <=? length m)%nat); reflexivity.
Qed.

Lemma unwinding_okw {A} (m : M world A) cleanup w a w' : m w = Ok a w' -> unwinding m cleanup w = Ok a w'.
Proof. intros E. unfold unwinding, on_unwind. rewrite E. reflexivity. Qed.


Lemma set_nth_same {A} (n : nat) (x y d : A) : forall l, set_nth n x d (set_nth n y d l) = set_nth n x d l.
Proof.
  induction n as [|n IH]; intros l; destruct l as [|z l]; cbn [set_nth]; try reflexivity; f_equal; apply IH.
Qed.
Lemma put_put_same v o1 o2 u1 u2 w : put_vec v o2 u2 (put_vec v o1 u1 w) = put_vec v o2 u2 w.
Proof. unfold put_vec. cbn [wv]. rewrite set_nth_same. reflexivity. Qed.

Lemma write_ptr_with_len c p bs n v u :
  write_ptr c p bs (with_len n v, u)
  = match write_ptr c p bs (v, u) with
    | Ok _ (v', u') => Ok tt (with_len n v', u')
    | Panic q (v', u') => Panic q (with_len n v', u')
    | Fault f => Fault f
    end.
Proof.
  destruct v as [l cp m g bk].
  unfold write_ptr, write_value, check_range, bind, getv, setv, fault_, ret, with_len, with_mem.
  cbv beta iota delta [fst snd vlen vcap vmem vgen vbk].
  destruct (negb (pgen p =? g)); [reflexivity|].
  destruct ((N.of_nat (poff p) + N.of_nat (szn c) <=? cp * c_sz c) && (poff p + szn c <=? length m)%nat); [|reflexivity].
  destruct (length bs =? szn c)%nat; reflexivity.
Qed.

(** what is done with the handle of element [i]: the base sinks *)
Lemma sink_base c w st a vid av k i vv h sk r :
  cfg_wf c -> WRep c w st -> get_a vid st = Some av -> temp_req k i (a_xs av) ->
  get_vec vid w = Some vv -> VI c vv av -> temp_for c vv (a_xs av) k i h -> ufuse (wuw w) = None ->
  (forall d, In d (sink_dsts sk) -> d <> vid -> adm_vec c w d) ->
  sp_take_elem c st (unext (wuw w)) vid av k i sk = Some r ->
  match apply_sink c vid (known_of a) h sk (put_vec vid (Some (with_len (N.of_nat i) vv)) (wuw w) w) with
  | Ok rets w2 => s_out r = 0 /\ s_pk r = 0 /\ s_ret r = rets /\
                  step_ok c w w2 (s_st r) (s_evs r) (s_nx r - unext (wuw w))
  | Panic p w2 => s_out r = 2 /\ s_pk r = panic_code p /\ s_ret r = [] /\
                  step_ok c w w2 (s_st r) (s_evs r) (s_nx r - unext (wuw w))
  | Fault _ => False
  end.
Proof.
  intros Hwf HW Hg Hreq Hgv HV Hfor Hfuse Hadm Hr.
  set (xs := a_xs av) in *.
  unfold sp_take_elem in Hr. cbv zeta in Hr. fold xs in Hr.
  destruct sk as [| |d|d j| |k0|n0 d0 k0|n0 k0|]; try discriminate.
  + (* KDrop *)
    injection Hr as <-.
    destruct (sink_drop c w st vid av k i vv h HW Hreq HV Hfor Hfuse (known_of a)) as (w2 & E & Hso).
    rewrite E. cbn [ok_res s_out s_pk s_ret s_st s_evs s_nx].
    split; [reflexivity|split; [reflexivity|split; [reflexivity|]]]. rewrite N.sub_diag. exact Hso.
  + (* KDown *)
    injection Hr as <-.
    destruct (sink_down c w st vid av k i vv h HW Hreq HV Hfor Hfuse (known_of a)) as (w2 & E & Hso).
    rewrite E. cbn [ok_res s_out s_pk s_ret s_st s_evs s_nx].
    split; [reflexivity|split; [reflexivity|split; [reflexivity|]]]. rewrite N.sub_diag. exact Hso.
  + (* KPush d *)
    destruct (Nat.eqb_spec d vid) as [|Hne]; [discriminate|].
    destruct (get_a d st) as [b|] eqn:Hgb; [|discriminate].
    pose proof (sink_move c w st vid av k i vv h d b Hwf HW Hreq HV Hfor Hfuse Hne Hgb
                  (Hadm d (or_introl eq_refl) Hne) (known_of a) None) as Hm.
    cbn [move_sink] in Hm. fold xs in Hm.
    destruct (put_value c b None (nth i xs 0)) as [ys'|p]; injection Hr as <-.
    * destruct Hm as (w2 & E & Hso). rewrite E.
      cbn [ok_res s_out s_pk s_ret s_st s_evs s_nx].
      split; [reflexivity|split; [reflexivity|split; [reflexivity|]]]. rewrite N.sub_diag. exact Hso.
    * destruct Hm as (w2 & E & Hso). rewrite E.
      cbn [panic_res s_out s_pk s_ret s_st s_evs s_nx].
      split; [reflexivity|split; [reflexivity|split; [reflexivity|]]]. rewrite N.sub_diag. exact Hso.
  + (* KIns d j *)
    destruct (Nat.eqb_spec d vid) as [|Hne]; [discriminate|].
    destruct (get_a d st) as [b|] eqn:Hgb; [|discriminate].
    pose proof (sink_move c w st vid av k i vv h d b Hwf HW Hreq HV Hfor Hfuse Hne Hgb
                  (Hadm d (or_introl eq_refl) Hne) (known_of a) (Some j)) as Hm.
    cbn [move_sink] in Hm. fold xs in Hm.
    destruct (put_value c b (Some j) (nth i xs 0)) as [ys'|p]; injection Hr as <-.
    * destruct Hm as (w2 & E & Hso). rewrite E.
      cbn [ok_res s_out s_pk s_ret s_st s_evs s_nx].
      split; [reflexivity|split; [reflexivity|split; [reflexivity|]]]. rewrite N.sub_diag. exact Hso.
    * destruct Hm as (w2 & E & Hso). rewrite E.
      cbn [panic_res s_out s_pk s_ret s_st s_evs s_nx].
      split; [reflexivity|split; [reflexivity|split; [reflexivity|]]]. rewrite N.sub_diag. exact Hso.
  + (* KForget *)
    injection Hr as <-.
    destruct (sink_forget c w st vid av k i vv h HW Hreq HV Hfuse (known_of a)) as (E & Hso).
    rewrite E. cbn [ok_res s_out s_pk s_ret s_st s_evs s_nx].
    split; [reflexivity|split; [reflexivity|split; [reflexivity|]]]. rewrite N.sub_diag. exact Hso.
Qed.

Lemma sp_upd_length' i t (xs : list N) : (i < length xs)%nat -> length (sp_upd i t xs) = length xs.
Proof. exact (upd_length i t xs). Qed.

Lemma get_vec_put_other' v d ov u w : d <> v -> get_vec d (put_vec v ov u w) = get_vec d w.
Proof.
  intros Hne. rewrite !get_vec_slot. unfold put_vec. cbn [wv]. rewrite slot_set_nth.
  destruct (Nat.eqb_spec d v); [contradiction|reflexivity].
Qed.

Lemma sp_take_elem_nx c st nx v a k i sk r : sp_take_elem c st nx v a k i sk = Some r -> s_nx r = nx.
Proof.
  unfold sp_take_elem. cbv zeta. intros H.
  repeat match type of H with
  | Some _ = Some _ => injection H as <-
  | None = Some _ => discriminate H
  | context [match ?x with _ => _ end] => destruct x eqn:?
  | context [if ?x then _ else _] => destruct x eqn:?
  end; reflexivity.
Qed.
Lemma sp_lazy_pushes_nx c t : forall n b nx b' evs nx' ok,
  sp_lazy_pushes c b t nx n = (b', evs, nx', ok) -> nx <= nx' /\ nx' <= nx + N.of_nat n /\ a_bk b' = a_bk b.
Proof.
  induction n as [|n IH]; intros b nx b' evs nx' ok H; cbn [sp_lazy_pushes] in H.
  - injection H as <- _ <- _. repeat split; lia.
  - destruct (full c b); [injection H as <- _ <- _; repeat split; lia|].
    destruct (sp_lazy_pushes c (with_xs b (sp_push (tok c nx) (a_xs b))) t (nx + 1) n) as [[[b1 e1] n1] o1] eqn:E.
    injection H as <- _ <- _. destruct (IH _ _ _ _ _ _ E) as (H1 & H2 & H3). cbn [with_xs a_bk] in H3. repeat split; try lia. exact H3.
Qed.
Lemma sp_sink_nx c : forall sk st nx v a k i r, sp_sink c st nx v a k i sk = Some r -> nx <= s_nx r.
Proof.
  induction sk as [| |d|d j| |sk' IH|n0 d0 sk' IH|n0 sk' IH|]; intros st nx v a k i r H; cbn [sp_sink] in H;
    try (apply sp_take_elem_nx in H; lia).
  - cbv zeta in H. destruct (sp_sink c _ (nx + 1) v _ k i sk') as [r'|] eqn:E; [|discriminate].
    apply IH in E. injection H as <-. cbn [s_nx]. lia.
  - destruct (Nat.eqb d0 v); [discriminate|]. destruct (get_a d0 st) as [b|]; [|discriminate].
    destruct (sp_lazy_pushes c b (nth i (a_xs a) 0) nx (N.to_nat n0)) as [[[b1 e1] n1] o1] eqn:E.
    destruct (sp_lazy_pushes_nx c _ _ _ _ _ _ _ _ E) as (H1 & _).
    destruct o1.
    + destruct (sp_sink c _ n1 v a k i sk') as [r'|] eqn:E'; [|discriminate].
      apply IH in E'. injection H as <-. cbn [s_nx]. lia.
    + injection H as <-. cbn [panic_res s_nx]. lia.
  - cbv zeta in H. destruct (sp_sink c st (nx + n0) v a k i sk') as [r'|] eqn:E; [|discriminate].
    apply IH in E. injection H as <-. cbn [s_nx]. lia.
Qed.

(** [n] times: a lazy clone of the held value is downcast - a new value, destroyed at once *)
Definition lazy_step (c : cfg) (t : N) (u : uw) : uw :=
  let id := tok c (unext u) in
  {| ulog := (if c_dg c then [EDrop id] else []) ++ EClone t id :: ulog u; unext := unext u + 1; ufuse := ufuse u |}.
Fixpoint lazy_uw (c : cfg) (t : N) (u : uw) (n : nat) : uw :=
  match n with O => u | S m => lazy_uw c t (lazy_step c t u) m end.
Lemma lazy_uw_facts c t : forall n u,
  unext (lazy_uw c t u n) = unext u + N.of_nat n /\ ufuse (lazy_uw c t u n) = ufuse u /\
  uevents (lazy_uw c t u n)
  = rev (flat_map (fun id => EClone t id :: drop_ev c id) (next_ids c (unext u) n)) ++ uevents u.
Proof.
  induction n as [|n IH]; intros u.
  - cbn [lazy_uw next_ids seq map flat_map rev app]. split; [lia|]. split; reflexivity.
  - cbn [lazy_uw]. destruct (IH (lazy_step c t u)) as (H1 & H2 & H3).
    rewrite H1, H2, H3. unfold lazy_step at 1 2 4. cbn [unext ufuse]. split; [lia|]. split; [reflexivity|].
    assert (En : next_ids c (unext u) (S n) = tok c (unext u) :: next_ids c (unext u + 1) n).
    { unfold next_ids. cbn [seq map]. rewrite N.add_0_r. f_equal.
      rewrite <- seq_shift, map_map. apply map_ext. intros j. f_equal. lia. }
    rewrite En. cbn [flat_map]. rewrite rev_app_distr. rewrite <- app_assoc. f_equal.
    unfold uevents, lazy_step, drop_ev. cbn [ulog]. destruct (c_dg c); reflexivity.
Qed.

(** ** lazy clones of the held value pushed into another vector ([KLazy]) *)
Lemma roomy_can_take c vv xs m : Rep c vv xs -> roomy c vv m -> can_take c vv 1.
Proof.
  intros HR [Hfx|(Hres & Hu & Hl)]; [right; right; exact Hfx|].
  destruct (N.le_gt_cases (vlen vv + 1) (vcap vv)) as [Hle|Hgt]; [left; exact Hle|right; left].
  pose proof (rep_cap _ _ _ HR) as Hc. assert (Hcap : vcap vv = vlen vv) by lia.
  assert (Hb : c_sz c * (2 * vlen vv + 1) <= alloc_limit).
  { eapply N.le_trans; [|exact Hl]. apply N.mul_le_mono_l. lia. }
  unfold grow_ok, grow_target. destruct Hres as [Hb0|[c0 Hb0]]; rewrite Hb0.
  - split; [lia|]. unfold saturating_mul. rewrite Hcap.
    destruct (N.leb_spec (vlen vv * 2) usize_max) as [H1|H1]; [|lia].
    eapply N.le_trans; [|exact Hb]. apply N.mul_le_mono_l. lia.
  - split; [lia|]. eapply N.le_trans; [|exact Hb]. apply N.mul_le_mono_l. lia.
Qed.
Lemma roomy_pushed c vv vv' m : roomy c vv m -> 1 <= m -> vlen vv' = vlen vv + 1 -> vbk vv' = vbk vv -> roomy c vv' (m - 1).
Proof.
  intros [Hfx|(Hres & Hu & Hl)] Hm Hlen Hbk; [left; rewrite Hbk; exact Hfx|right].
  rewrite Hbk, Hlen. replace (vlen vv + 1 + (m - 1)) with (vlen vv + m) by lia. auto.
Qed.

Lemma set_nth_id {A} (x d : A) : forall n l, nth_error l n = Some x -> set_nth n x d l = l.
Proof.
  induction n as [|n IH]; intros l H; destruct l as [|y l]; cbn [nth_error set_nth] in *; try discriminate.
  - injection H as ->. reflexivity.
  - f_equal. apply IH. exact H.
Qed.
Lemma put_vec_restore vid vv wl W :
  get_vec vid W = Some wl -> put_vec vid (Some wl) (wuw W) (put_vec vid (Some vv) (wuw W) W) = W.
Proof.
  intros Hg. rewrite put_put_same. unfold put_vec. destruct W as [l u]. cbn [wv wuw]. f_equal.
  apply set_nth_id. unfold get_vec in Hg. cbn [wv] in Hg.
  destruct (nth_error l vid) as [[x|]|]; try discriminate. injection Hg as ->. reflexivity.
Qed.
Lemma sp_lazy_pushes_ok c t : forall n b nx b' evs nx',
  sp_lazy_pushes c b t nx n = (b', evs, nx', true) -> nx' = nx + N.of_nat n.
Proof.
  induction n as [|n IH]; intros b nx b' evs nx' H; cbn [sp_lazy_pushes] in H.
  - injection H as _ _ <-. lia.
  - destruct (full c b); [discriminate|].
    destruct (sp_lazy_pushes c (with_xs b (sp_push (tok c nx) (a_xs b))) t (nx + 1) n) as [[[b1 e1] n1] o1] eqn:E.
    injection H as _ _ <- ->. rewrite (IH _ _ _ _ _ E). lia.
Qed.

Section LazyLoop.
Variables (c : cfg) (vid dst : nat) (wl : vec) (t : N) (rd : M Vec.st mem) (W0 : world).
Hypothesis Hwf : cfg_wf c.
Hypothesis Hne : dst <> vid.
Hypothesis Htok : tok_ok (szn c) t.
(* [rd]: how the bytes of the held value are read - through a removal handle, or a drained item's pointer *)
Hypothesis Hbytes : forall u, rd (wl, u) = Ok (enc (szn c) t) (wl, u).

Record LoopInv (W : world) (ad : avec) (vd : vec) : Prop := {
  li_v : get_vec vid W = Some wl;
  li_d : get_vec dst W = Some vd;
  li_vi : VI c vd ad;
  li_o : forall k, k <> vid -> k <> dst -> slot k (wv W) = slot k (wv W0);
  li_f : ufuse (wuw W) = None
}.

Definition lazy_body : M world unit :=
  do bs <- on_vec vid rd;
  offer_into c dst {| f_ty := c_ty c; f_src := VClone bs false; f_checked := true; f_drop := DNone |} (push_unchecked c).

Lemma lazy_push_loop : forall n W ad vd m,
  LoopInv W ad vd -> (1 <= m -> can_take c vd 1) -> (2 <= m -> roomy c vd m) -> N.of_nat n <= m ->
  exists W' vd',
    LoopInv W' (fst (fst (fst (sp_lazy_pushes c ad t (unext (wuw W)) n)))) vd' /\
    unext (wuw W') = snd (fst (sp_lazy_pushes c ad t (unext (wuw W)) n)) /\
    uevents (wuw W') = rev (snd (fst (fst (sp_lazy_pushes c ad t (unext (wuw W)) n)))) ++ uevents (wuw W) /\
    (let pushed := snd (fst (sp_lazy_pushes c ad t (unext (wuw W)) n)) - unext (wuw W) in
     (1 <= m - pushed -> can_take c vd' 1) /\ (2 <= m - pushed -> roomy c vd' (m - pushed))) /\
    repeat_m n lazy_body W = (if snd (sp_lazy_pushes c ad t (unext (wuw W)) n) then Ok tt W' else Panic PCapacity W').
Proof.
  induction n as [|n IH]; intros W ad vd m HI Hc1 Hc2 Hnm.
  - exists W, vd. cbn [sp_lazy_pushes fst snd repeat_m rev app]. rewrite N.sub_diag, N.sub_0_r.
    split; [exact HI|]. split; [reflexivity|]. split; [reflexivity|]. split; [split; assumption|reflexivity].
  - destruct HI as [Hv Hd HV Ho Hf].
    cbn [repeat_m sp_lazy_pushes].
    (* the bytes of the held value *)
    assert (E1 : on_vec vid rd W = Ok (enc (szn c) t) (put_vec vid (Some wl) (wuw W) W))
      by (apply (on_vec_ok vid _ W wl _ wl (wuw W) Hv (Hbytes (wuw W)))).
    set (W1 := put_vec vid (Some wl) (wuw W) W).
    assert (Hd1 : get_vec dst W1 = Some vd) by (unfold W1; rewrite get_vec_put_other' by exact Hne; exact Hd).
    assert (Hv1 : forall ov u, get_vec vid (put_vec dst ov u W1) = Some wl).
    { intros ov u. rewrite get_vec_put_other' by congruence. unfold W1. apply get_vec_put_same. }
    assert (Ho1 : forall ov u k, k <> vid -> k <> dst -> slot k (wv (put_vec dst ov u W1)) = slot k (wv W0)).
    { intros ov u k Hk1 Hk2. unfold W1, put_vec. cbn [wv]. rewrite !slot_set_nth.
      destruct (Nat.eqb_spec k dst); [contradiction|]. destruct (Nat.eqb_spec k vid); [contradiction|]. apply Ho; assumption. }
    set (o := {| f_ty := c_ty c; f_src := VClone (enc (szn c) t) false; f_checked := true; f_drop := DNone |}).
    pose proof (raw_action_clone_spec c vd ad (wuw W1) None (enc (szn c) t) t false Hwf HV (dec_enc _ _ Htok) Hf (Hc1 ltac:(lia))) as Hspec.
    cbv zeta in Hspec. unfold put_value in Hspec. unfold raw_action in Hspec.
    assert (Hnx1 : unext (wuw W1) = unext (wuw W)) by reflexivity. rewrite Hnx1 in Hspec.
    unfold lazy_body at 1. unfold bind at 1. unfold bind at 1. rewrite E1. fold W1. fold o.
    unfold offer_into, unwinding.
    destruct (full c ad) eqn:Hfull.
    + (* the push is refused *)
      exists (put_vec dst (Some vd) (wuw W1) W1), vd. cbn [fst snd rev app]. rewrite N.sub_diag, N.sub_0_r.
      split; [constructor; [apply Hv1|apply get_vec_put_same|exact HV|apply Ho1|rewrite wuw_put; exact Hf]|].
      split; [reflexivity|]. split; [reflexivity|]. split; [split; assumption|].
      unfold bind at 1. unfold on_unwind. rewrite offer_check_pass by reflexivity.
      cbn [f_src o]. rewrite (on_vec_panic dst _ W1 vd PCapacity vd (wuw W1) Hd1 Hspec).
      assert (Hfp : ufuse (wuw (put_vec dst (Some vd) (wuw W1) W1)) = None) by (rewrite wuw_put; exact Hf).
      rewrite (quiet_none (drop_offer c o) _ tt _ Hfp eq_refl Hfp). reflexivity.
    + destruct Hspec as (v' & u' & E & HV' & Hn' & Hf' & He').
      set (W2 := put_vec dst (Some v') u' W1).
      assert (Estep : (do _ <- on_unwind ((if f_checked o then assert_ (f_ty o =? c_ty c) PType else ret tt);;
                                          on_vec dst (push_unchecked c (f_src o))) (quiet (drop_offer c o));
                       finish_offer c o) W1 = Ok tt W2).
      { unfold bind at 1. unfold on_unwind. rewrite offer_check_pass by reflexivity. cbn [f_src o].
        rewrite (on_vec_ok dst _ W1 vd tt v' u' Hd1 E). reflexivity. }
      set (ad1 := with_xs ad (sp_push (tok c (unext (wuw W))) (a_xs ad))) in *.
      assert (HI2 : LoopInv W2 ad1 v').
      { constructor; [apply Hv1|apply get_vec_put_same|exact HV'|apply Ho1|unfold W2; rewrite wuw_put; exact Hf']. }
      assert (Hlen' : vlen v' = vlen vd + 1).
      { rewrite (rep_len _ _ _ (vi_rep _ _ _ HV')), (rep_len _ _ _ (vi_rep _ _ _ HV)). cbn [ad1 with_xs a_xs]. unfold sp_push.
        rewrite app_length. cbn [length]. lia. }
      assert (Hbk' : vbk v' = vbk vd) by (rewrite (vi_bk _ _ _ HV'), (vi_bk _ _ _ HV); reflexivity).
      assert (Hm1 : 1 <= m) by lia.
      assert (Hc2' : 2 <= m - 1 -> roomy c v' (m - 1)).
      { intros H2. apply (roomy_pushed c vd v' m); auto. apply Hc2. lia. }
      assert (Hc1' : 1 <= m - 1 -> can_take c v' 1).
      { intros H1. apply (roomy_can_take c v' _ (m - 1) (vi_rep _ _ _ HV')). apply (roomy_pushed c vd v' m); auto. apply Hc2. lia. }
      assert (Hnx2 : unext (wuw W2) = unext (wuw W) + 1) by (unfold W2; rewrite wuw_put; exact Hn').
      destruct (IH W2 ad1 v' (m - 1) HI2 Hc1' Hc2' ltac:(lia)) as (W' & vd' & HI' & Hnx' & Hev' & Hadm' & Erun).
      rewrite Hnx2 in *.
      destruct (sp_lazy_pushes c ad1 t (unext (wuw W) + 1) n) as [[[b1 e1] n1] o1] eqn:Esp.
      cbn [fst snd] in *.
      exists W', vd'. split; [exact HI'|]. split; [exact Hnx'|]. split.
      { rewrite Hev'. unfold W2. rewrite wuw_put, He'. cbn [rev]. rewrite <- app_assoc. reflexivity. }
      split.
      { destruct (sp_lazy_pushes_nx c t n ad1 (unext (wuw W) + 1) b1 e1 n1 o1 Esp) as (Hge & _).
        replace (m - (n1 - unext (wuw W))) with (m - 1 - (n1 - (unext (wuw W) + 1))) by lia. exact Hadm'. }
      rewrite Estep. exact Erun.
Qed.
End LazyLoop.

(** ... and the sinks that first use the handle (write through it, downcast lazy clones of it) *)
Lemma sink_spec c a : forall sk w st vid av k i vv h r,
  cfg_wf c -> WRep c w st -> get_a vid st = Some av -> temp_req k i (a_xs av) ->
  get_vec vid w = Some vv -> VI c vv av -> temp_for c vv (a_xs av) k i h -> ufuse (wuw w) = None ->
  (forall d, In d (sink_dsts sk) -> d <> vid -> adm_many c w d (sink_count sk d)) ->
  sp_sink c st (unext (wuw w)) vid av k i sk = Some r ->
  match apply_sink c vid (known_of a) h sk (put_vec vid (Some (with_len (N.of_nat i) vv)) (wuw w) w) with
  | Ok rets w2 => s_out r = 0 /\ s_pk r = 0 /\ s_ret r = rets /\
                  step_ok c w w2 (s_st r) (s_evs r) (s_nx r - unext (wuw w))
  | Panic p w2 => s_out r = 2 /\ s_pk r = panic_code p /\ s_ret r = [] /\
                  step_ok c w w2 (s_st r) (s_evs r) (s_nx r - unext (wuw w))
  | Fault _ => False
  end.
Proof.
  induction sk as [| |d|d j| |sk' IH|n0 d0 sk' IH|n0 sk' IH|];
    intros w st vid av k i vv h r Hwf HW Hg Hreq Hgv HV Hfor Hfuse Hadm Hr;
    try (cbn [sp_sink] in Hr;
         match goal with |- context [apply_sink _ _ _ _ ?sk0 _] =>
           exact (sink_base c w st a vid av k i vv h sk0 r Hwf HW Hg Hreq Hgv HV Hfor Hfuse
                            (base_sink_adm c w vid sk0 I Hadm) Hr) end).
  - (* KMut: a new value is written through the handle first *)
    cbn [sp_sink] in Hr. cbv zeta in Hr.
    set (xs := a_xs av) in *. set (t := nth i xs 0) in *.
    set (n := tok c (unext (wuw w))) in *.
    set (av' := with_xs av (sp_upd i n xs)) in *.
    set (st' := set_a vid (Some av') st) in *.
    destruct (sp_sink c st' (unext (wuw w) + 1) vid av' k i sk') as [r'|] eqn:Er'; [|discriminate].
    injection Hr as <-.
    pose proof (vi_rep _ _ _ HV) as HR. fold xs in HR.
    assert (Hi : (i < length xs)%nat) by (apply Hreq).
    assert (Ht : tok_ok (szn c) t).
    { pose proof (rep_tok _ _ _ HR) as Ht. rewrite Forall_forall in Ht. apply Ht. apply nth_In. exact Hi. }
    set (wl := with_len (N.of_nat i) vv).
    set (w1 := put_vec vid (Some wl) (wuw w) w).
    assert (Hg1 : forall u0 w0, get_vec vid (put_vec vid (Some wl) u0 w0) = Some wl) by (intros; apply get_vec_put_same).
    assert (Ew1 : put_vec vid (Some wl) (wuw w) w1 = w1) by (unfold w1; apply put_put_same).
    cbn [apply_sink].
    (* the pointer *)
    rewrite (bind_ok _ _ _ _ _ (on_vec_ok vid _ w1 wl _ wl (wuw w) (Hg1 _ _) (temp_ptr_ok c vv (wuw w) xs k i h Hfor))).
    rewrite Ew1.
    (* the old value *)
    assert (Er : read_ptr c (ptr_at c vv (N.of_nat i)) (wl, wuw w) = Ok (enc (szn c) t) (wl, wuw w)).
    { unfold wl. rewrite read_ptr_with_len. rewrite (read_elem c vv (wuw w) xs i HR Hi). reflexivity. }
    rewrite (bind_ok _ _ _ _ _ (on_vec_ok vid _ w1 wl _ wl (wuw w) (Hg1 _ _) Er)).
    rewrite Ew1.
    unfold bind at 1. unfold decode. rewrite (dec_enc _ _ Ht). unfold ret at 1.
    (* the new value *)
    unfold bind at 1. unfold freshw at 1. fold n.
    set (u1 := {| ulog := ulog (wuw w1); unext := unext (wuw w1) + 1; ufuse := ufuse (wuw w1) |}).
    destruct (write_elem c vv u1 xs i n HR Hi (tok_tok_ok c _)) as (vv' & Ew & HR' & Hl' & Hc' & Hgen' & Hb' & Hm').
    assert (Ew' : write_ptr c (ptr_at c vv (N.of_nat i)) (enc_c c n) (wl, u1) = Ok tt (with_len (N.of_nat i) vv', u1)).
    { unfold wl, enc_c. rewrite write_ptr_with_len, Ew. reflexivity. }
    set (w1c := {| wv := wv w1; wuw := u1 |}).
    assert (Hg1c : get_vec vid w1c = Some wl) by (apply Hg1).
    rewrite (bind_ok _ _ _ _ _ (on_vec_ok vid _ w1c wl tt _ u1 Hg1c Ew')).
    (* the base world of the rest: the vector holds the new value *)
    set (u2 := if c_dg c then emit (EDrop t) u1 else u1).
    set (w' := put_vec vid (Some vv') u2 w).
    assert (Ehd : forall (X : M world (list N)) ,
              (harness_drop c t;; X) (put_vec vid (Some (with_len (N.of_nat i) vv')) u1 w1c)
              = X (put_vec vid (Some (with_len (N.of_nat i) vv')) (wuw w') w')).
    { intros X. unfold bind, harness_drop, w', u2, w1c, w1. destruct (c_dg c); unfold emitw, ret, put_vec; cbn [wuw wv];
        rewrite ?set_nth_same; reflexivity. }
    rewrite Ehd.
    (* the hypotheses for the rest *)
    assert (HV' : VI c vv' av').
    { destruct HV as [_ Hbk Hwfb Hcap Hfits]. constructor; cbn [av' with_xs a_bk a_xs]; auto; try congruence.
      destruct (acap c (a_bk av)); [congruence|exact I]. }
    assert (HW' : WRep c w' st') by (apply wrep_put; [exact HW|exact HV']).
    assert (Hg' : get_a vid st' = Some av') by (apply get_a_set_same).
    assert (Hreq' : temp_req k i (a_xs av')).
    { cbn [av' with_xs a_xs]. unfold temp_req in *. rewrite sp_upd_length' by exact Hi. exact Hreq. }
    assert (Hgv' : get_vec vid w' = Some vv') by (apply get_vec_put_same).
    assert (Hfor' : temp_for c vv' (a_xs av') k i h).
    { destruct Hfor as (H1 & H2 & H3 & H4). cbn [av' with_xs a_xs]. unfold temp_for.
      rewrite sp_upd_length' by exact Hi. repeat split; auto. rewrite H4. unfold ptr_at. rewrite Hgen'. reflexivity. }
    assert (Hfuse' : ufuse (wuw w') = None).
    { unfold w'. rewrite wuw_put. unfold u2, u1, w1. destruct (c_dg c); cbn [emit ufuse wuw put_vec]; exact Hfuse. }
    assert (Hnx' : unext (wuw w') = unext (wuw w) + 1).
    { unfold w'. rewrite wuw_put. unfold u2, u1, w1. destruct (c_dg c); cbn [emit unext wuw put_vec]; reflexivity. }
    assert (Hadm' : forall d, In d (sink_dsts sk') -> d <> vid -> adm_many c w' d (sink_count sk' d)).
    { intros d Hin Hne vd Hgd. apply (Hadm d Hin Hne). unfold w' in Hgd. rewrite get_vec_put_other' in Hgd by exact Hne. exact Hgd. }
    rewrite <- Hnx' in Er'.
    pose proof (IH w' st' vid av' k i vv' h r' Hwf HW' Hg' Hreq' Hgv' HV' Hfor' Hfuse' Hadm' Er') as Hrest.
    assert (Hstep : step_ok c w w' st' (drop_ev c t) 1).
    { constructor; [exact HW'|rewrite Hnx'; reflexivity|exact Hfuse'|].
      unfold w'. rewrite wuw_put. unfold u2, u1, w1, drop_ev. destruct (c_dg c).
      - rewrite uevents_emit_user by reflexivity. reflexivity.
      - reflexivity. }
    unfold bind. revert Hrest.
    destruct (apply_sink c vid (known_of a) h sk' (put_vec vid (Some (with_len (N.of_nat i) vv')) (wuw w') w')) as [rets w2|p w2|f];
      intros Hrest; [| |exact Hrest]; destruct Hrest as (Ho & Hp & Hrt & Hso); unfold ret;
      cbn [s_out s_pk s_ret s_st s_evs s_nx]; rewrite Ho; cbn [N.eqb];
      (split; [reflexivity|split; [exact Hp|split; [rewrite Hrt; reflexivity|]]]);
      replace (s_nx r' - unext (wuw w)) with (1 + (s_nx r' - unext (wuw w'))) by
        (pose proof (sp_sink_nx _ _ _ _ _ _ _ _ _ Er'); lia);
      exact (step_ok_trans c w w' w2 st' (s_st r') (drop_ev c t) (s_evs r') 1 _ Hstep Hso).
  - (* KLazy: lazy clones of the held value are pushed into another vector first *)
    cbn [sp_sink] in Hr.
    destruct (Nat.eqb_spec d0 vid) as [|Hne]; [discriminate|].
    destruct (get_a d0 st) as [ad|] eqn:Hgd; [|discriminate].
    destruct (wrep_get c w st d0 ad HW Hgd) as (vd & Hgvd & HVd).
    set (xs := a_xs av) in *. set (t := nth i xs 0) in *.
    pose proof (vi_rep _ _ _ HV) as HR. fold xs in HR.
    assert (Hi : (i < length xs)%nat) by (apply Hreq).
    assert (Ht : tok_ok (szn c) t).
    { pose proof (rep_tok _ _ _ HR) as Ht. rewrite Forall_forall in Ht. apply Ht. apply nth_In. exact Hi. }
    set (wl := with_len (N.of_nat i) vv).
    set (w1 := put_vec vid (Some wl) (wuw w) w).
    assert (Hbytes : forall u, temp_bytes c h (wl, u) = Ok (enc (szn c) t) (wl, u)).
    { intros u. exact (temp_bytes_spec c vv u xs k i h HR Hreq Hfor). }
    assert (HI : LoopInv c vid d0 wl w w1 ad vd).
    { constructor.
      - apply get_vec_put_same.
      - unfold w1. rewrite get_vec_put_other' by exact Hne. exact Hgvd.
      - exact HVd.
      - intros j Hj _. unfold w1, put_vec. cbn [wv]. rewrite slot_set_nth. destruct (Nat.eqb_spec j vid); [contradiction|reflexivity].
      - exact Hfuse. }
    set (m := n0 + sink_count sk' d0).
    assert (Hm : adm_many c w d0 m).
    { pose proof (Hadm d0 (or_introl eq_refl) Hne) as H. cbn [sink_count] in H. rewrite Nat.eqb_refl in H. exact H. }
    destruct (Hm vd Hgvd) as [Hc1 Hc2].
    destruct (lazy_push_loop c vid d0 wl t (temp_bytes c h) w Hwf Hne Ht Hbytes (N.to_nat n0) w1 ad vd m HI Hc1 Hc2 ltac:(unfold m; lia))
      as (W' & vd' & HI' & Hnx' & Hev' & Hadm' & Erun).
    assert (Hnx1 : unext (wuw w1) = unext (wuw w)) by reflexivity. rewrite Hnx1 in *.
    destruct (sp_lazy_pushes c ad t (unext (wuw w)) (N.to_nat n0)) as [[[ad' evs] nx'] ok] eqn:Esp.
    cbn [fst snd] in *.
    destruct (sp_lazy_pushes_nx c t _ _ _ _ _ _ _ Esp) as (Hge & _ & Hbk').
    destruct HI' as [Hv' Hd' HVd' Ho' Hf'].
    set (st1 := set_a d0 (Some ad') st) in *.
    set (w' := put_vec vid (Some vv) (wuw W') W').
    assert (EW' : put_vec vid (Some wl) (wuw w') w' = W') by (unfold w'; rewrite wuw_put; apply put_vec_restore; exact Hv').
    assert (HW' : WRep c w' st1).
    { intros j. unfold w', st1, put_vec, set_a. cbn [wv]. rewrite !slot_set_nth.
      destruct (Nat.eqb_spec j vid) as [->|Hj1].
      - destruct (Nat.eqb_spec vid d0); [congruence|]. rewrite <- get_a_slot, Hg. exact HV.
      - destruct (Nat.eqb_spec j d0) as [->|Hj2].
        + rewrite <- get_vec_slot, Hd'. exact HVd'.
        + rewrite (Ho' j Hj1 Hj2). apply HW. }
    assert (Hg' : get_a vid st1 = Some av).
    { unfold st1. rewrite get_a_slot. unfold set_a. rewrite slot_set_nth. destruct (Nat.eqb_spec vid d0); [congruence|].
      rewrite <- get_a_slot. exact Hg. }
    assert (Hgv' : get_vec vid w' = Some vv) by apply get_vec_put_same.
    assert (Hfuse' : ufuse (wuw w') = None) by (unfold w'; rewrite wuw_put; exact Hf').
    assert (Hstep : step_ok c w w' st1 evs (nx' - unext (wuw w))).
    { constructor; [exact HW'| unfold w'; rewrite wuw_put, Hnx'; lia |exact Hfuse'|unfold w'; rewrite wuw_put; exact Hev']. }
    cbn [apply_sink]. fold wl. fold w1.
    change (do bs <- on_vec vid (temp_bytes c h);
            offer_into c d0 {| f_ty := c_ty c; f_src := VClone bs false; f_checked := true; f_drop := DNone |} (push_unchecked c))
      with (lazy_body c vid d0 (temp_bytes c h)).
    unfold bind at 1. unfold unwinding, on_unwind. rewrite Erun.
    destruct ok.
    + (* all clones went in: the rest of the sink, from the world in which the other vector has grown *)
      destruct (sp_sink c st1 nx' vid av k i sk') as [r'|] eqn:Er'; [|discriminate]. injection Hr as <-.
      pose proof (sp_lazy_pushes_ok c t _ _ _ _ _ _ Esp) as Enx.
      assert (Hadm2 : forall d, In d (sink_dsts sk') -> d <> vid -> adm_many c w' d (sink_count sk' d)).
      { intros d Hin Hnd vx Hgx. unfold w' in Hgx. rewrite get_vec_put_other' in Hgx by exact Hnd.
        destruct (Nat.eq_dec d d0) as [->|Hd0].
        - rewrite Hd' in Hgx. injection Hgx as <-.
          replace (sink_count sk' d0) with (m - (nx' - unext (wuw w))) by (unfold m; lia). exact Hadm'.
        - pose proof (Hadm d (or_intror Hin) Hnd) as H. cbn [sink_count] in H.
          destruct (Nat.eqb_spec d0 d); [congruence|]. rewrite N.add_0_l in H.
          apply H. rewrite !get_vec_slot in *. rewrite <- (Ho' d Hnd Hd0). exact Hgx. }
      assert (Er2 : sp_sink c st1 (unext (wuw w')) vid av k i sk' = Some r') by (unfold w'; rewrite wuw_put, Hnx'; exact Er').
      pose proof (IH w' st1 vid av k i vv h r' Hwf HW' Hg' Hreq Hgv' HV Hfor Hfuse' Hadm2 Er2) as Hrest.
      fold wl in Hrest. rewrite EW' in Hrest. revert Hrest.
      destruct (apply_sink c vid (known_of a) h sk' W') as [rets w2|p w2|f];
        intros Hrest; [| |exact Hrest]; destruct Hrest as (Ho & Hp & Hrt & Hso);
        cbn [s_out s_pk s_ret s_st s_evs s_nx];
        (split; [exact Ho|split; [exact Hp|split; [exact Hrt|]]]);
        replace (s_nx r' - unext (wuw w)) with ((nx' - unext (wuw w)) + (s_nx r' - unext (wuw w'))) by
          (pose proof (sp_sink_nx _ _ _ _ _ _ _ _ _ Er'); unfold w'; rewrite wuw_put, Hnx'; lia);
        exact (step_ok_trans c w w' w2 st1 (s_st r') evs (s_evs r') _ _ Hstep Hso).
    + (* a push was refused: the unwinding drops the handle *)
      injection Hr as <-.
      destruct (sink_drop c w' st1 vid av k i vv h HW' Hreq HV Hfor Hfuse' (known_of a)) as (w2 & E2 & Hso).
      fold wl in E2. rewrite EW' in E2. cbn [apply_sink] in E2. unfold bind in E2.
      destruct (on_vec vid (temp_drop c (known_of a) h) W') as [u0 wq|p wq|f] eqn:Ed; try discriminate.
      unfold ret in E2. injection E2 as <-. destruct u0.
      assert (Hfq : ufuse (wuw wq) = None) by (apply (so_fuse _ _ _ _ _ _ Hso)).
      rewrite (quiet_none (on_vec vid (temp_drop c (known_of a) h)) W' tt wq Hf' Ed Hfq).
      cbn [panic_res s_out s_pk s_ret s_st s_evs s_nx].
      split; [reflexivity|split; [reflexivity|split; [reflexivity|]]].
      replace (nx' - unext (wuw w)) with ((nx' - unext (wuw w)) + 0) by lia.
      exact (step_ok_trans c w w' wq st1 _ evs (drop_ev c t) _ _ Hstep Hso).
  - (* KLazyDown: lazy clones of the held value are downcast first *)
    cbn [sp_sink] in Hr. cbv zeta in Hr.
    set (xs := a_xs av) in *. set (t := nth i xs 0) in *.
    set (cnt := N.to_nat n0) in *.
    destruct (sp_sink c st (unext (wuw w) + n0) vid av k i sk') as [r'|] eqn:Er'; [|discriminate].
    injection Hr as <-.
    pose proof (vi_rep _ _ _ HV) as HR. fold xs in HR.
    assert (Hi : (i < length xs)%nat) by (apply Hreq).
    assert (Ht : tok_ok (szn c) t).
    { pose proof (rep_tok _ _ _ HR) as Ht. rewrite Forall_forall in Ht. apply Ht. apply nth_In. exact Hi. }
    set (wl := with_len (N.of_nat i) vv).
    assert (Hld : forall m u, ufuse u = None ->
              lazy_downs c vid m (on_vec vid (temp_bytes c h)) (put_vec vid (Some wl) u w)
              = Ok (next_ids c (unext u) m) (put_vec vid (Some wl) (lazy_uw c t u m) w)).
    { induction m as [|m IHm]; intros u Hfu.
      - reflexivity.
      - cbn [lazy_downs lazy_uw].
        rewrite (bind_ok _ _ _ _ _ (on_vec_ok vid _ _ wl _ wl u (get_vec_put_same _ _ _ _)
                                       (temp_bytes_spec c vv u xs k i h HR Hreq Hfor))).
        rewrite put_put_same.
        unfold lazy_down. unfold bind at 1. unfold bind at 1. unfold decode. fold t. rewrite (dec_enc _ _ Ht). unfold ret at 1.
        rewrite (bind_ok _ _ _ _ _ (on_vec_ok vid _ _ wl tt wl u (get_vec_put_same _ _ _ _) (user_call_ok wl u Hfu))).
        rewrite put_put_same.
        match goal with |- match ?X (put_vec vid (Some wl) u w) with _ => _ end = _ =>
          assert (Estep : X (put_vec vid (Some wl) u w) = Ok (tok c (unext u)) (put_vec vid (Some wl) (lazy_step c t u) w))
        end.
        { unfold bind, freshw, emitw, harness_drop, ret, lazy_step, put_vec, tok. cbn [wuw wv ulog unext ufuse emit].
          destruct (c_dg c); cbn [app]; reflexivity. }
        rewrite Estep.
        rewrite (bind_ok _ _ _ _ _ (IHm (lazy_step c t u) Hfu)). unfold ret.
        assert (En : next_ids c (unext u) (S m) = tok c (unext u) :: next_ids c (unext u + 1) m).
        { unfold next_ids. cbn [seq map]. rewrite N.add_0_r. f_equal.
          rewrite <- seq_shift, map_map. apply map_ext. intros j. f_equal. lia. }
        rewrite En. reflexivity. }
    cbn [apply_sink]. fold cnt.
    rewrite (bind_ok _ _ _ _ _ (unwinding_okw _ _ _ _ _ (Hld cnt (wuw w) Hfuse))).
    destruct (lazy_uw_facts c t cnt (wuw w)) as (Hn1 & Hf1 & He1).
    set (u' := lazy_uw c t (wuw w) cnt) in *.
    set (w' := put_vec vid (Some vv) u' w).
    assert (Ealive : put_vec vid (Some wl) u' w = put_vec vid (Some wl) (wuw w') w') by (unfold w'; rewrite put_put_same; reflexivity).
    rewrite Ealive.
    assert (HW' : WRep c w' st) by (apply (wrep_put_same c w st vid vv av); assumption).
    assert (Hgv' : get_vec vid w' = Some vv) by (apply get_vec_put_same).
    assert (Hfuse' : ufuse (wuw w') = None) by (unfold w'; rewrite wuw_put, Hf1; exact Hfuse).
    assert (Hnx' : unext (wuw w') = unext (wuw w) + n0) by (unfold w'; rewrite wuw_put, Hn1; unfold cnt; lia).
    assert (Hadm' : forall d, In d (sink_dsts sk') -> d <> vid -> adm_many c w' d (sink_count sk' d)).
    { intros d Hin Hne vd Hgd. apply (Hadm d Hin Hne). unfold w' in Hgd. rewrite get_vec_put_other' in Hgd by exact Hne. exact Hgd. }
    rewrite <- Hnx' in Er'.
    pose proof (IH w' st vid av k i vv h r' Hwf HW' Hg Hreq Hgv' HV Hfor Hfuse' Hadm' Er') as Hrest.
    assert (Hstep : step_ok c w w' st (flat_map (fun id => EClone t id :: drop_ev c id) (next_ids c (unext (wuw w)) cnt)) n0).
    { constructor; [exact HW'|exact Hnx'|exact Hfuse'|]. unfold w'. rewrite wuw_put. exact He1. }
    unfold bind. fold wl in Hrest. revert Hrest.
    destruct (apply_sink c vid (known_of a) h sk' (put_vec vid (Some wl) (wuw w') w')) as [rets w2|p w2|f];
      intros Hrest; [| |exact Hrest]; destruct Hrest as (Ho & Hp & Hrt & Hso); unfold ret;
      cbn [s_out s_pk s_ret s_st s_evs s_nx]; rewrite Ho; cbn [N.eqb];
      (split; [reflexivity|split; [exact Hp|split; [rewrite Hrt; reflexivity|]]]);
      replace (s_nx r' - unext (wuw w)) with (n0 + (s_nx r' - unext (wuw w'))) by
        (pose proof (sp_sink_nx _ _ _ _ _ _ _ _ _ Er'); lia);
      exact (step_ok_trans c w w' w2 st (s_st r') _ (s_evs r') n0 _ Hstep Hso).
Qed.

Lemma exec_take c w st a vid k idx sk r :
  cfg_wf c -> WRep c w st -> ufuse (wuw w) = None ->
  (k = TPop -> idx = 0) ->
  (forall d, In d (sink_dsts sk) -> adm_many c w d (sink_count sk d)) ->
  sp_take c st (unext (wuw w)) vid k idx sk = Some r ->
  res_matches c w (take_prog c a vid k idx sk w) r.
Proof.
  intros Hwf HW Hfuse Hpop Hadm Hr.
  unfold sp_take in Hr. destruct (get_a vid st) as [av|] eqn:Hg; [|discriminate].
  set (xs := a_xs av) in *.
  (* which element, if any *)
  assert (Hcase : (k = TPop /\ xs = []) \/ (k <> TPop /\ N.of_nat (length xs) <= idx) \/
                  exists i, temp_req k i xs /\ (k <> TPop -> idx = N.of_nat i) /\
                            (k = TPop -> i = (length xs - 1)%nat) /\ (k <> TPop -> i = N.to_nat idx)).
  { destruct k.
    - destruct xs as [|x xs'] eqn:Ex; [left; auto|]. right. right. exists (length (x :: xs') - 1)%nat.
      unfold temp_req. cbn [length]. repeat split; try lia; intros; try congruence.
    - destruct (N.lt_ge_cases idx (N.of_nat (length xs))) as [Hlt|Hge].
      + right. right. exists (N.to_nat idx). unfold temp_req. repeat split; try lia; intros; try congruence.
      + right. left. split; [discriminate|exact Hge].
    - destruct (N.lt_ge_cases idx (N.of_nat (length xs))) as [Hlt|Hge].
      + right. right. exists (N.to_nat idx). unfold temp_req. repeat split; try lia; intros; try congruence.
      + right. left. split; [discriminate|exact Hge]. }
  unfold take_prog.
  destruct Hcase as [[Hk Hx]|[[Hk Hoob]|(i & Hreq & Hidx & Hipop & Hirm)]].
  - (* pop on an empty vector *)
    subst k. rewrite (Hpop eq_refl) in *. rewrite Hx in Hr. cbn [length Nat.eqb] in Hr.
    unfold bind. rewrite (temp_open_pop_empty c w st vid av HW Hg Hx). unfold ret.
    assert (Hr' : r = none_res st (unext (wuw w))) by congruence.
    subst r. cbn [res_matches none_res s_out s_pk s_ret s_st s_evs s_nx].
    split; [reflexivity|split; [reflexivity|split; [reflexivity|]]].
    rewrite N.sub_diag. apply step_ok_refl; assumption.
  - (* index out of range *)
    unfold bind. rewrite (temp_open_oob c w st vid av k idx HW Hg Hk Hoob).
    assert (Hr' : r = panic_res PIndex [] st (unext (wuw w))).
    { destruct k; [congruence| |]; destruct (N.ltb_spec idx (N.of_nat (length xs))) as [Hlt|_]; try lia; congruence. }
    subst r. cbn [res_matches panic_res s_out s_pk s_ret s_st s_evs s_nx].
    split; [reflexivity|split; [reflexivity|split; [reflexivity|]]].
    rewrite N.sub_diag. apply step_ok_refl; assumption.
  - (* a handle for element i *)
    destruct (temp_open_some c w st vid av k idx i HW Hg Hreq Hidx) as (vv & h & Hgv & HV & Hfor & Eo).
    unfold bind at 1. rewrite Eo.
    assert (Hsel : (match k with
                    | TPop => if (length xs =? 0)%nat then inr (none_res st (unext (wuw w))) else inl (Some (length xs - 1)%nat)
                    | _ => if idx <? N.of_nat (length xs) then inl (Some (N.to_nat idx))
                           else inr (panic_res PIndex [] st (unext (wuw w)))
                    end : option nat + sres) = inl (Some i)).
    { destruct Hreq as [Hi _]. destruct k.
      - rewrite (Hipop eq_refl). destruct (Nat.eqb_spec (length xs) 0); [lia|reflexivity].
      - rewrite (Hirm ltac:(discriminate)). rewrite (Hidx ltac:(discriminate)).
        destruct (N.ltb_spec (N.of_nat i) (N.of_nat (length xs))); [reflexivity|lia].
      - rewrite (Hirm ltac:(discriminate)). rewrite (Hidx ltac:(discriminate)).
        destruct (N.ltb_spec (N.of_nat i) (N.of_nat (length xs))); [reflexivity|lia]. }
    rewrite Hsel in Hr. clear Hsel.
    pose proof (sink_spec c a sk w st vid av k i vv h r Hwf HW Hg Hreq Hgv HV Hfor Hfuse
                  (fun d Hin _ => Hadm d Hin) Hr) as Hm.
    unfold bind.
    destruct (apply_sink c vid (known_of a) h sk (put_vec vid (Some (with_len (N.of_nat i) vv)) (wuw w) w)) as [rets w2|p w2|f];
      [| |exact Hm]; destruct Hm as (Ho & Hp & Hrt & Hso); unfold ret; cbn [res_matches]; auto.
Qed.

(** dropping a vector: the elements are destroyed in order, then the storage is released *)
Lemma drop_vec_ok c v u xs :
  Rep c v xs -> ufuse u = None ->
  exists v' u', drop_vec c (v, u) = Ok tt (v', u') /\
    unext u' = unext u /\ ufuse u' = None /\
    uevents u' = rev (if c_dg c then map EDrop xs else []) ++ uevents u.
Proof.
  intros HR Hf.
  destruct (clear_ok c v u xs HR Hf) as (v1 & u1 & Ec & HR1 & Hcap1 & Hbk1 & Hn1 & Hf1 & Hl1).
  destruct (mem_drop_ok c v1 u1) as (v2 & u2 & Ed & _ & Hn2 & Hf2 & He2).
  exists v2, u2. split.
  - unfold drop_vec. rewrite (bind_ok _ _ _ _ _ (unwinding_ok _ _ _ _ _ Ec)). exact Ed.
  - split; [congruence|]. split; [congruence|]. rewrite He2. unfold uevents. rewrite Hl1.
    rewrite filter_app. f_equal. destruct (c_dg c); [|reflexivity].
    rewrite <- map_rev. induction (rev xs) as [|x l IH]; [reflexivity|]. cbn [map filter is_user_event]. f_equal. exact IH.
Qed.

(** a fresh vector *)
Lemma new_vi c bk v0 u :
  bk_wf bk ->
  match bk with
  | BStackN n size =>
      if stackn_fits n (c_sz c) size
      then exists v' u', mem_build c bk (v0, u) = Ok tt (v', u') /\ VI c v' {| a_bk := bk; a_xs := [] |} /\ same_user u u'
      else mem_build c bk (v0, u) = Panic PStackN (v0, u)
  | _ => exists v' u', mem_build c bk (v0, u) = Ok tt (v', u') /\ VI c v' {| a_bk := bk; a_xs := [] |} /\ same_user u u'
  end.
Proof.
  intros Hwf.
  assert (Hgen : forall v' u', mem_build c bk (v0, u) = Ok tt (v', u') ->
                 (match acap c bk with Some cap => vcap v' = cap | None => True end) ->
                 (match bk with BStackN n size => stackn_fits n (c_sz c) size = true | _ => True end) ->
                 VI c v' {| a_bk := bk; a_xs := [] |} /\ same_user u u').
  { intros v' u' E Hc Hft. destruct (mem_build_rep c bk u v0 Hwf v' u' E) as (HR & Hb & He & Hn & Hf).
    split; [constructor; cbn [a_bk a_xs]; auto|]. unfold same_user. auto. }
  destruct bk as [|size|n size| |c0]; cbn [acap] in Hgen.
  - eexists _, _. split; [reflexivity|]. apply Hgen; [reflexivity|exact I|exact I].
  - eexists _, _. split; [reflexivity|]. apply Hgen; [reflexivity|reflexivity|exact I].
  - unfold mem_build. destruct (stackn_fits n (c_sz c) size) eqn:Hfit; [|reflexivity].
    eexists _, _. split; [reflexivity|]. apply Hgen; [|reflexivity|reflexivity].
    unfold mem_build. rewrite Hfit. reflexivity.
  - eexists _, _. split; [reflexivity|]. apply Hgen; [reflexivity|reflexivity|exact I].
  - eexists _, _. split; [reflexivity|]. apply Hgen; [reflexivity|exact I|exact I].
Qed.

(** ** drain inside histories: every range, every consumption pattern *)
Lemma into_range_panic len sb eb (s : Vec.st) :
  range_of_bounds usize_max len (to_sb sb) (to_sb eb) = None ->
  into_range len sb eb s = Panic (range_panic sb eb) s.
Proof.
  unfold range_of_bounds, into_range, range_panic, bound_overflows, bind, of_opt, checked_add, assert_, ret, raise.
  destruct sb as [|i|i], eb as [|j|j]; cbn [to_sb orb];
    repeat match goal with
           | |- context [N.leb ?a ?b] => destruct (N.leb_spec a b)
           | |- context [N.ltb ?a ?b] => destruct (N.ltb_spec a b)
           end; cbn [andb orb]; intros Hx; try discriminate; try reflexivity; try lia.
Qed.
Lemma into_range_ok len sb eb (s : Vec.st) a b :
  range_of_bounds usize_max len (to_sb sb) (to_sb eb) = Some (a, b) ->
  into_range len sb eb s = Ok (a, b) s /\ a <= b /\ b <= len.
Proof.
  intros H. pose proof (into_range_spec len sb eb s) as Hs.
  assert (E : to_sbound = to_sb) by reflexivity. rewrite E, H in Hs. split; [exact Hs|].
  apply (into_range_valid len sb eb s a b Hs).
Qed.

Lemma range_alive_any c v xs s e i j :
  Rep c v xs -> (s <= i)%nat -> (i <= j)%nat -> (j <= e)%nat -> (e <= length xs)%nat ->
  RangeAlive c (with_len (N.of_nat s) v) xs s e i j.
Proof.
  intros HR Hsi Hij Hje He.
  pose proof (rep_held c v xs HR) as Hall.
  assert (Hsplit : forall a b, (a <= b)%nat -> (b <= length xs)%nat -> Held c v a (firstn (b - a) (skipn a xs))).
  { intros a b Hab Hb. pose proof Hall as H0. rewrite <- (firstn_skipn a xs) in H0.
    apply held_split in H0. destruct H0 as [_ H1]. rewrite firstn_length_le in H1 by lia. cbn [Nat.add] in H1.
    rewrite <- (firstn_skipn (b - a) (skipn a xs)) in H1. apply held_split in H1. exact (proj1 H1). }
  destruct HR as [Hlen Hcap Husize Hstore Hmem Htok].
  constructor; try assumption.
  - lia.
  - reflexivity.
  - cbn [vcap with_len]. lia.
  - specialize (Hsplit 0%nat s ltac:(lia) ltac:(lia)). rewrite Nat.sub_0_r in Hsplit. exact Hsplit.
  - apply (Hsplit i j); lia.
  - specialize (Hsplit e (length xs) He ltac:(lia)).
    rewrite firstn_all2 in Hsplit by (rewrite skipn_length; lia). exact Hsplit.
Qed.


Lemma rep_held_one c v xs idx :
  Rep c v xs -> (idx < length xs)%nat -> Held c v idx [nth idx xs 0].
Proof.
  intros HR Hi. pose proof (rep_held c v xs HR) as Hall.
  destruct (nth_split xs 0 Hi) as (a & b & Hx & Ha).
  rewrite Hx in Hall. apply held_split in Hall. destruct Hall as [_ H1].
  change (nth idx xs 0 :: b) with ([nth idx xs 0] ++ b) in H1. apply held_split in H1.
  rewrite Ha, Nat.add_0_l in H1. exact (proj1 H1).
Qed.


Lemma cur_next_nat i j :
  cur_next {| ci := N.of_nat i; ce := N.of_nat j |}
  = if (i =? j)%nat then (None, {| ci := N.of_nat i; ce := N.of_nat j |})
    else (Some (N.of_nat i), {| ci := N.of_nat (S i); ce := N.of_nat j |}).
Proof.
  unfold cur_next. cbn [ci ce].
  destruct (Nat.eqb_spec i j) as [->|Hne].
  - rewrite N.eqb_refl. reflexivity.
  - destruct (N.eqb_spec (N.of_nat i) (N.of_nat j)) as [E|_]; [apply Nat2N.inj in E; contradiction|].
    rewrite Nat2N.inj_succ, N.add_1_r. reflexivity.
Qed.
Lemma cur_next_back_nat i j :
  cur_next_back {| ci := N.of_nat i; ce := N.of_nat j |}
  = if (i =? j)%nat then (None, {| ci := N.of_nat i; ce := N.of_nat j |})
    else (Some (N.of_nat (j - 1)), {| ci := N.of_nat i; ce := N.of_nat (j - 1) |}).
Proof.
  unfold cur_next_back. cbn [ci ce].
  destruct (Nat.eqb_spec i j) as [->|Hne].
  - rewrite N.eqb_refl. reflexivity.
  - destruct (N.eqb_spec (N.of_nat j) (N.of_nat i)) as [E|_]; [apply Nat2N.inj in E; congruence|].
    assert (E : N.of_nat j - 1 = N.of_nat (j - 1)) by lia. rewrite E. reflexivity.
Qed.
Lemma cur_len_nat i j : cur_len {| ci := N.of_nat i; ce := N.of_nat j |} = N.of_nat (j - i).
Proof. unfold cur_len. cbn [ci ce]. lia. Qed.

Section Draining.
Variables (c : cfg) (w : world) (st : astate) (vid : nat) (av : avec) (vv : vec) (s e : nat) (a : api).
Hypothesis HW : WRep c w st.
Hypothesis Hg : get_a vid st = Some av.
Hypothesis Hgv : get_vec vid w = Some vv.
Hypothesis HV : VI c vv av.
Hypothesis Hfuse : ufuse (wuw w) = None.
Hypothesis Hse : (s <= e)%nat.
Hypothesis Hel : (e <= length (a_xs av))%nat.
Let xs := a_xs av.
Let vr := with_len (N.of_nat s) vv.

(** worlds met while the iterator is alive: slot [vid] holds [vr], the others are untouched *)
Record Walking (ww : world) (evs : list event) : Prop := {
  wk_vec : get_vec vid ww = Some vr;
  wk_other : forall n, n <> vid -> slot n (wv ww) = slot n (wv w);
  wk_nx : unext (wuw ww) = unext (wuw w);
  wk_fuse : ufuse (wuw ww) = None;
  wk_evs : uevents (wuw ww) = rev evs ++ uevents (wuw w)
}.

Lemma walking_put ww evs u' evs' :
  Walking ww evs -> unext u' = unext (wuw w) -> ufuse u' = None -> uevents u' = rev evs' ++ uevents (wuw w) ->
  Walking (put_vec vid (Some vr) u' ww) evs'.
Proof.
  intros [Hv Ho Hn Hf He] Hn' Hf' He'. constructor.
  - apply get_vec_put_same.
  - intros n Hne. unfold put_vec. cbn [wv]. rewrite slot_set_nth.
    destruct (Nat.eqb_spec n vid); [contradiction|apply Ho; exact Hne].
  - rewrite wuw_put. exact Hn'.
  - rewrite wuw_put. exact Hf'.
  - rewrite wuw_put. exact He'.
Qed.

Lemma item_read ww evs idx :
  Walking ww evs -> (s <= idx)%nat -> (idx < e)%nat ->
  on_vec vid (read_ptr c (ptr_at c vr (N.of_nat idx))) ww
  = Ok (enc (szn c) (nth idx xs 0)) (put_vec vid (Some vr) (wuw ww) ww).
Proof.
  intros Hwk Hsi Hie. apply (on_vec_ok vid _ ww vr); [apply (wk_vec _ _ Hwk)|].
  assert (Hp : ptr_at c vr (N.of_nat idx) = ptr_at c vv (N.of_nat idx)) by reflexivity.
  rewrite Hp. unfold vr. rewrite read_ptr_with_len.
  rewrite (read_elem c vv (wuw ww) xs idx (vi_rep _ _ _ HV)) by (unfold xs in *; lia). reflexivity.
Qed.

Lemma item_tok idx : (idx < e)%nat -> tok_ok (szn c) (nth idx xs 0).
Proof.
  intros Hi. pose proof (rep_tok _ _ _ (vi_rep _ _ _ HV)) as Ht. rewrite Forall_forall in Ht.
  apply Ht. apply nth_In. unfold xs in *. lia.
Qed.

(** what happens to a yielded item: dropped or downcast, the value is destroyed once; the storage is
    not touched *)
Lemma item_sink_spec0 ww evs idx sk out cleanup :
  Walking ww evs -> (s <= idx)%nat -> (idx < e)%nat ->
  match sk with KDrop => Some [] | KDown => Some [nth idx xs 0] | _ => None end = Some out ->
  exists ww', unwinding (item_sink c vid a (ptr_at c vr (N.of_nat idx)) sk) cleanup ww = Ok out ww' /\
              Walking ww' (evs ++ drop_ev c (nth idx xs 0)).
Proof.
  intros Hwk Hsi Hie Hout. set (t := nth idx xs 0) in *.
  pose proof (item_tok idx Hie) as Ht. fold t in Ht.
  destruct Hwk as [Hv Ho Hn Hf He].
  assert (Hwk : Walking ww evs) by (constructor; assumption).
  assert (Hevs : forall u', uevents u' = rev (drop_ev c t) ++ uevents (wuw ww) ->
                 uevents u' = rev (evs ++ drop_ev c t) ++ uevents (wuw w)).
  { intros u' H. rewrite H, He, rev_app_distr, app_assoc. reflexivity. }
  destruct sk; try discriminate; injection Hout as <-.
  - (* KDrop *)
    destruct a.
    + (* erased: Element::drop *)
      cbn [item_sink]. unfold elem_drop. destruct (c_dg c) eqn:Hdg.
      * assert (Ed : (do v0 <- getv; (if negb (pgen (ptr_at c vr (N.of_nat idx)) =? vgen v0) then fault_ FStale else ret tt);;
                      drop_at c (poff (ptr_at c vr (N.of_nat idx)))) (vr, wuw ww)
                     = Ok tt (vr, emit (EDrop t) (wuw ww))).
        { unfold bind at 1. unfold getv. cbn [fst snd ptr_at pgen poff]. rewrite N.eqb_refl. cbn [negb].
          unfold bind. unfold ret at 1. rewrite bo_of_nat.
          apply drop_at_ok; auto.
          - unfold vr. unfold store_ok. cbn [with_len vcap vmem]. apply (rep_store _ _ _ (vi_rep _ _ _ HV)).
          - unfold vr. cbn [with_len vcap]. pose proof (rep_cap _ _ _ (vi_rep _ _ _ HV)).
            pose proof (rep_len _ _ _ (vi_rep _ _ _ HV)). unfold xs in *. lia.
          - unfold Held, vr. cbn [with_len vmem].
            apply (rep_held_one c vv xs idx (vi_rep _ _ _ HV)). unfold xs in *. lia. }
        exists (put_vec vid (Some vr) (emit (EDrop t) (wuw ww)) ww). split.
        -- apply unwinding_okw. rewrite (bind_ok _ _ _ _ _ (on_vec_ok vid _ ww vr tt vr _ Hv Ed)). reflexivity.
        -- apply (walking_put ww evs); auto.
           apply Hevs. unfold drop_ev. rewrite Hdg. apply uevents_emit_user. reflexivity.
      * exists (put_vec vid (Some vr) (wuw ww) ww). split.
        -- apply unwinding_okw. rewrite (bind_ok _ _ _ _ _ (on_vec_ok vid (ret tt) ww vr tt vr (wuw ww) Hv eq_refl)). reflexivity.
        -- apply (walking_put ww evs); auto. apply Hevs. unfold drop_ev. rewrite Hdg. reflexivity.
    + (* typed: the value is read out and dropped by the caller *)
      cbn [item_sink].
      exists {| wv := wv (put_vec vid (Some vr) (wuw ww) ww);
                wuw := if c_dg c then emit (EDrop t) (wuw ww) else wuw ww |}. split.
      * apply unwinding_okw. unfold bind at 1. rewrite (item_read ww evs idx Hwk Hsi Hie).
        unfold bind at 1. unfold decode. fold t. rewrite (dec_enc _ _ Ht). unfold ret at 1.
        unfold bind, harness_drop. destruct (c_dg c); reflexivity.
      * constructor; cbn [wuw].
        -- rewrite get_vec_slot. cbn [wv]. rewrite <- get_vec_slot. apply get_vec_put_same.
        -- intros n Hne. cbn [wv]. unfold put_vec. cbn [wv]. rewrite slot_set_nth.
           destruct (Nat.eqb_spec n vid); [contradiction|apply Ho; exact Hne].
        -- destruct (c_dg c); cbn [emit unext]; exact Hn.
        -- destruct (c_dg c); cbn [emit ufuse]; exact Hf.
        -- apply Hevs. unfold drop_ev. destruct (c_dg c); [apply uevents_emit_user; reflexivity|reflexivity].
  - (* KDown *)
    cbn [item_sink].
    exists {| wv := wv (put_vec vid (Some vr) (wuw ww) ww);
              wuw := if c_dg c then emit (EDrop t) (wuw ww) else wuw ww |}. split.
    + apply unwinding_okw. unfold bind at 1. rewrite (item_read ww evs idx Hwk Hsi Hie).
      unfold bind at 1. unfold decode. fold t. rewrite (dec_enc _ _ Ht). unfold ret at 1.
      unfold bind, harness_drop. destruct (c_dg c); reflexivity.
    + constructor; cbn [wuw].
      * rewrite get_vec_slot. cbn [wv]. rewrite <- get_vec_slot. apply get_vec_put_same.
      * intros n Hne. cbn [wv]. unfold put_vec. cbn [wv]. rewrite slot_set_nth.
        destruct (Nat.eqb_spec n vid); [contradiction|apply Ho; exact Hne].
      * destruct (c_dg c); cbn [emit unext]; exact Hn.
      * destruct (c_dg c); cbn [emit ufuse]; exact Hf.
      * apply Hevs. unfold drop_ev. destruct (c_dg c); [apply uevents_emit_user; reflexivity|reflexivity].
Qed.

Lemma item_sink_spec ww evs idx sk out cleanup :
  Walking ww evs -> (s <= idx)%nat -> (idx < e)%nat ->
  match sk with KDrop | KSkip => Some [] | KDown => Some [nth idx xs 0] | _ => None end = Some out ->
  exists ww', unwinding (item_sink c vid a (ptr_at c vr (N.of_nat idx)) sk) cleanup ww = Ok out ww' /\
              Walking ww' (evs ++ drop_ev c (nth idx xs 0)).
Proof.
  intros Hwk Hsi Hie Hout.
  destruct sk; try discriminate.
  - apply (item_sink_spec0 ww evs idx KDrop out cleanup Hwk Hsi Hie Hout).
  - apply (item_sink_spec0 ww evs idx KDown out cleanup Hwk Hsi Hie Hout).
  - (* an item passed over by nth: destroyed exactly like a dropped one *)
    change (item_sink c vid a (ptr_at c vr (N.of_nat idx)) KSkip) with (item_sink c vid a (ptr_at c vr (N.of_nat idx)) KDrop).
    apply (item_sink_spec0 ww evs idx KDrop out cleanup Hwk Hsi Hie Hout).
Qed.

Lemma walk_spec cleanup : forall pat i j ww evs rets ds i' j',
  Walking ww evs -> (s <= i)%nat -> (i <= j)%nat -> (j <= e)%nat ->
  sp_walk xs pat i j = Some (rets, ds, i', j') ->
  exists ww',
    walk c vid a cleanup pat {| ci := N.of_nat i; ce := N.of_nat j |} ww
    = Ok (rets, {| ci := N.of_nat i'; ce := N.of_nat j' |}) ww' /\
    Walking ww' (evs ++ flat_map (drop_ev c) ds) /\ (i <= i')%nat /\ (i' <= j')%nat /\ (j' <= j)%nat.
Proof.
  induction pat as [|[front sk] pat IH]; intros i j ww evs rets ds i' j' Hwk Hsi Hij Hje Hsp; cbn [sp_walk] in Hsp.
  - injection Hsp as <- <- <- <-. exists ww. cbn [walk flat_map]. rewrite app_nil_r.
    split; [reflexivity|]. split; [exact Hwk|]. lia.
  - cbn [walk].
    destruct (Nat.eqb_spec i j) as [Heq|Hne].
    + (* exhausted: None *)
      destruct (sp_walk xs pat i j) as [[[[rets0 ds0] i0] j0]|] eqn:Er; [|discriminate].
      injection Hsp as <- <- <- <-.
      destruct (IH i j ww evs rets0 ds0 i0 j0 Hwk Hsi Hij Hje Er) as (ww' & E & Hwk' & Hb).
      exists ww'. split; [|split; [exact Hwk'|exact Hb]].
      assert (Hk : (if front then cur_next {| ci := N.of_nat i; ce := N.of_nat j |}
                    else cur_next_back {| ci := N.of_nat i; ce := N.of_nat j |})
                   = (None, {| ci := N.of_nat i; ce := N.of_nat j |})).
      { destruct front; [rewrite cur_next_nat|rewrite cur_next_back_nat];
          (destruct (Nat.eqb_spec i j); [reflexivity|contradiction]). }
      rewrite Hk. rewrite (bind_ok _ _ _ _ _ E). unfold ret. cbn [fst snd]. rewrite cur_len_nat. reflexivity.
    + set (idx := if front then i else (j - 1)%nat) in *.
      set (i1 := if front then S i else i) in *. set (j1 := if front then j else (j - 1)%nat) in *.
      set (t := nth idx xs 0) in *.
      destruct (match sk with KDrop | KSkip => Some [] | KDown => Some [t] | _ => None end) as [out|] eqn:Eout; [|discriminate].
      destruct (sp_walk xs pat i1 j1) as [[[[rets0 ds0] i0] j0]|] eqn:Er; [|discriminate].
      injection Hsp as <- <- <- <-.
      assert (Hidx : (s <= idx)%nat /\ (idx < e)%nat) by (unfold idx; destruct front; lia).
      assert (Hb1 : (s <= i1)%nat /\ (i1 <= j1)%nat /\ (j1 <= e)%nat) by (unfold i1, j1; destruct front; lia).
      assert (Hk : (if front then cur_next {| ci := N.of_nat i; ce := N.of_nat j |}
                    else cur_next_back {| ci := N.of_nat i; ce := N.of_nat j |})
                   = (Some (N.of_nat idx), {| ci := N.of_nat i1; ce := N.of_nat j1 |})).
      { unfold idx, i1, j1. destruct front; [rewrite cur_next_nat|rewrite cur_next_back_nat];
          (destruct (Nat.eqb_spec i j); [contradiction|reflexivity]). }
      rewrite Hk.
      (* item_ptr *)
      assert (Ep : item_ptr c vid (N.of_nat idx) ww = Ok (ptr_at c vr (N.of_nat idx)) ww).
      { unfold item_ptr, bind. rewrite (peek_vec_ok vid ww vr (wk_vec _ _ Hwk)). reflexivity. }
      rewrite (bind_ok _ _ _ _ _ Ep).
      rewrite (bind_ok _ _ _ _ _ (item_read ww evs idx Hwk (proj1 Hidx) (proj2 Hidx))).
      assert (Hwk1 : Walking (put_vec vid (Some vr) (wuw ww) ww) evs).
      { apply (walking_put ww evs); [exact Hwk|apply (wk_nx _ _ Hwk)|apply (wk_fuse _ _ Hwk)|apply (wk_evs _ _ Hwk)]. }
      unfold bind at 1. unfold decode. rewrite (dec_enc _ _ (item_tok idx (proj2 Hidx))). unfold ret at 1.
      destruct (item_sink_spec _ evs idx sk out (cleanup {| ci := N.of_nat i1; ce := N.of_nat j1 |}) Hwk1 (proj1 Hidx) (proj2 Hidx) Eout)
        as (ww2 & E2 & Hwk2).
      rewrite (bind_ok _ _ _ _ _ E2).
      destruct Hb1 as (Hb1a & Hb1b & Hb1c).
      destruct (IH i1 j1 ww2 _ rets0 ds0 i0 j0 Hwk2 Hb1a Hb1b Hb1c Er) as (ww' & E & Hwk' & Hb).
      exists ww'. split; [|split].
      * rewrite (bind_ok _ _ _ _ _ E). unfold ret. cbn [fst snd]. rewrite cur_len_nat. reflexivity.
      * cbn [flat_map]. rewrite app_assoc. exact Hwk'.
      * unfold i1, j1 in Hb. destruct front; lia.
Qed.
End Draining.

Lemma exec_drain c w st a vid sb eb pat f r :
  cfg_wf c -> WRep c w st -> ufuse (wuw w) = None ->
  sp_drain c st (unext (wuw w)) vid sb eb pat f = Some r ->
  res_matches c w (exec c (ODrain a vid sb eb pat f) w) r.
Proof.
  intros Hwf HW Hfuse Hr. unfold sp_drain in Hr.
  destruct (get_a vid st) as [av|] eqn:Hg; [|discriminate].
  destruct (wrep_get c w st vid av HW Hg) as (vv & Hgv & HV).
  pose proof (vi_rep _ _ _ HV) as HR. pose proof (rep_len _ _ _ HR) as Hlen.
  set (xs := a_xs av) in *. cbv zeta in Hr.
  cbn [exec]. rewrite (bind_ok _ _ _ _ _ (peek_vec_ok vid w vv Hgv)). rewrite Hlen.
  destruct (range_of_bounds usize_max (N.of_nat (length xs)) (to_sb sb) (to_sb eb)) as [[sN eN]|] eqn:Erb.
  - destruct (into_range_ok _ sb eb (vv, wuw w) sN eN Erb) as (Eir & Hse & Hel).
    set (s := N.to_nat sN) in *. set (e := N.to_nat eN) in *.
    assert (HsN : sN = N.of_nat s) by (unfold s; rewrite N2Nat.id; reflexivity).
    assert (HeN : eN = N.of_nat e) by (unfold e; rewrite N2Nat.id; reflexivity).
    assert (Hse' : (s <= e)%nat) by lia. assert (Hel' : (e <= length xs)%nat) by lia.
    rewrite (bind_ok _ _ _ _ _ (on_vec_ok vid _ w vv _ vv (wuw w) Hgv Eir)). cbn [fst snd].
    set (w1 := put_vec vid (Some vv) (wuw w) w).
    set (vr := with_len (N.of_nat s) vv).
    pose proof (drain_new_spec c vv (wuw w) xs s e HR Hse' Hel') as Edn. rewrite <- HsN, <- HeN in Edn.
    rewrite (bind_ok _ _ _ _ _ (on_vec_ok vid _ w1 vv _ _ _ (get_vec_put_same vid (Some vv) (wuw w) w) Edn)).
    rewrite HsN, HeN. fold vr.
    set (w2 := put_vec vid (Some vr) (wuw w1) w1).
    set (d := {| dcur := {| ci := N.of_nat s; ce := N.of_nat e |}; dstart := N.of_nat s; dend := N.of_nat e;
                 dorig := N.of_nat (length xs) |}).
    cbn [dcur].
    assert (Hwk0 : Walking w vid vv s w2 []).
    { constructor.
      - apply get_vec_put_same.
      - intros n Hne. unfold w2, w1, put_vec. cbn [wv]. rewrite !slot_set_nth.
        destruct (Nat.eqb_spec n vid); [contradiction|reflexivity].
      - reflexivity.
      - exact Hfuse.
      - reflexivity. }
    destruct (sp_walk xs pat s e) as [[[[rets ds] i'] j']|] eqn:Ewalk; [|discriminate].
    set (finish := fun k : cursor => on_vec vid (drain_drop c (known_of a) (with_cur k d))).
    destruct (walk_spec c w vid av vv s e a HV Hse' Hel' finish pat s e w2 [] rets ds i' j'
                Hwk0 (le_n s) Hse' (le_n e) Ewalk) as (ww' & Ew & Hwk & Hb1 & Hb2 & Hb3).
    cbn [app] in Hwk.
    rewrite (bind_ok _ _ _ _ _ Ew). cbn [fst snd].
    destruct Hwk as [Hv Ho Hn Hf He].
    destruct f; injection Hr as <-.
    + (* the iterator is dropped *)
      pose proof (range_alive_any c vv xs s e i' j' HR Hb1 Hb2 Hb3 Hel') as HA. fold vr in HA.
      destruct (drain_drop_spec c vr (wuw ww') xs s e i' j' (known_of a) HA Hf)
        as (v' & u' & Ed & HR' & Hc' & Hb' & Hn' & Hf' & Hl').
      assert (Efin : finish {| ci := N.of_nat i'; ce := N.of_nat j' |} ww' = Ok tt (put_vec vid (Some v') u' ww')).
      { unfold finish. apply (on_vec_ok vid _ ww' vr tt v' u' Hv). exact Ed. }
      rewrite (bind_ok _ _ _ _ _ Efin). unfold ret.
      assert (Hcl : cur_len (dcur d) = N.of_nat (e - s)) by (unfold d, cur_len; cbn [dcur ci ce]; lia). rewrite Hcl.
      cbn [res_matches ok_res s_out s_pk s_ret s_st s_evs s_nx].
      split; [reflexivity|split; [reflexivity|split; [reflexivity|]]]. rewrite N.sub_diag.
      constructor.
      * intros n. unfold put_vec, set_a. cbn [wv]. rewrite !slot_set_nth.
        destruct (Nat.eqb_spec n vid) as [->|Hne].
        -- destruct HV as [HRv Hbk Hbw Hcap Hfits]. constructor; cbn [with_xs a_bk a_xs]; auto.
           ++ unfold vr in Hb'. cbn [with_len vbk] in Hb'. congruence.
           ++ unfold vr in Hc'. cbn [with_len vcap] in Hc'. destruct (acap c (a_bk av)); [congruence|exact I].
        -- rewrite (Ho n Hne). apply HW.
      * rewrite wuw_put. lia.
      * rewrite wuw_put. exact Hf'.
      * rewrite wuw_put. unfold uevents at 1. rewrite Hl', uevents_drops. fold (uevents (wuw ww')). rewrite He.
        rewrite rev_app_distr. destruct (c_dg c); cbn [rev app]; rewrite <- ?app_assoc; reflexivity.
    + (* the iterator is leaked *)
      unfold ret, bind.
      assert (Hcl : cur_len (dcur d) = N.of_nat (e - s)) by (unfold d, cur_len; cbn [dcur ci ce]; lia). rewrite Hcl.
      cbn [res_matches ok_res s_out s_pk s_ret s_st s_evs s_nx].
      split; [reflexivity|split; [reflexivity|split; [reflexivity|]]]. rewrite N.sub_diag.
      constructor.
      * intros n. unfold set_a. rewrite slot_set_nth.
        destruct (Nat.eqb_spec n vid) as [->|Hne].
        -- rewrite get_vec_slot in Hv. rewrite Hv. apply vi_prefix; [exact HV|exact (Nat.le_trans _ _ _ Hse' Hel')].
        -- rewrite (Ho n Hne). apply HW.
      * lia.
      * exact Hf.
      * exact He.
  - (* invalid range: panics before anything changes *)
    injection Hr as <-.
    pose proof (into_range_panic _ sb eb (vv, wuw w) Erb) as Ep.
    rewrite (bind_panic _ _ _ _ _ (on_vec_panic vid _ w vv _ vv (wuw w) Hgv Ep)).
    cbn [res_matches panic_res s_out s_pk s_ret s_st s_evs s_nx].
    split; [reflexivity|split; [reflexivity|split; [reflexivity|]]]. rewrite N.sub_diag.
    constructor.
    + apply (wrep_put_same c w st vid vv av); assumption.
    + rewrite wuw_put. lia.
    + rewrite wuw_put. exact Hfuse.
    + rewrite wuw_put. reflexivity.
Qed.

Lemma resizable_spec bk : resizable bk = true -> resizable_backend bk /\ forall c, acap c bk = None.
Proof.
  destruct bk; cbn [resizable]; intros H; try discriminate; split; try reflexivity.
  - left. reflexivity.
  - right. eexists. reflexivity.
Qed.
Lemma acap_none_resizable c bk : acap c bk = None -> resizable_backend bk.
Proof. destruct bk; cbn [acap]; intros H; try discriminate; [left; reflexivity|right; eexists; reflexivity]. Qed.

(** a vector-level computation that keeps the elements *)
Lemma exec_keeps c w st vid av vv (m : M Vec.st unit) r :
  WRep c w st -> get_a vid st = Some av -> get_vec vid w = Some vv -> VI c vv av -> ufuse (wuw w) = None ->
  r = ok_res [] [] st (unext (wuw w)) ->
  (exists v' u', m (vv, wuw w) = Ok tt (v', u') /\ Rep c v' (a_xs av) /\ vbk v' = vbk vv /\ same_user (wuw w) u' /\
                 (fixed_backend (vbk vv) -> vcap v' = vcap vv)) ->
  res_matches c w ((on_vec vid m;; ret (0, @nil N)) w) r.
Proof.
  intros HW Hg Hgv HV Hfuse -> (v' & u' & E & HR' & Hb & Hsu & Hc).
  destruct (same_user_events _ _ Hsu) as (He & Hn & Hf).
  unfold bind. rewrite (on_vec_ok vid _ w vv tt v' u' Hgv E). unfold ret.
  cbn [res_matches ok_res s_out s_pk s_ret s_st s_evs s_nx].
  split; [reflexivity|split; [reflexivity|split; [reflexivity|]]]. rewrite N.sub_diag.
  constructor.
  - apply (wrep_put_same c w st vid v' av); [exact HW|exact Hg|].
    destruct HV as [HR Hbk Hwf Hcap Hfits]. constructor; auto; try congruence.
    destruct (acap c (a_bk av)) as [cap|] eqn:Ea; [|exact I].
    rewrite Hc; [exact Hcap|]. rewrite Hbk. eapply acap_fixed; eauto.
  - rewrite wuw_put. lia.
  - rewrite wuw_put. congruence.
  - rewrite wuw_put. exact He.
Qed.

Lemma exec_panics_unchanged c w st vid av vv (m : M Vec.st unit) p r :
  WRep c w st -> get_a vid st = Some av -> get_vec vid w = Some vv -> VI c vv av -> ufuse (wuw w) = None ->
  r = panic_res p [] st (unext (wuw w)) ->
  m (vv, wuw w) = Panic p (vv, wuw w) ->
  res_matches c w ((on_vec vid m;; ret (0, @nil N)) w) r.
Proof.
  intros HW Hg Hgv HV Hfuse -> E.
  unfold bind. rewrite (on_vec_panic vid _ w vv p vv (wuw w) Hgv E).
  cbn [res_matches panic_res s_out s_pk s_ret s_st s_evs s_nx].
  split; [reflexivity|split; [reflexivity|split; [reflexivity|]]]. rewrite N.sub_diag.
  constructor.
  - apply (wrep_put_same c w st vid vv av); assumption.
  - rewrite wuw_put. lia.
  - rewrite wuw_put. exact Hfuse.
  - rewrite wuw_put. reflexivity.
Qed.

Lemma same_user_emit e u : is_user_event e = false -> same_user u (emit e u).
Proof. intros H. unfold same_user, emit, uevents. cbn [unext ufuse ulog filter]. rewrite H. auto. Qed.

Lemma reserve_layout_panic c v u xs n :
  cfg_wf c -> Rep c v xs -> resizable_backend (vbk v) -> c_sz c * vcap v <= alloc_limit -> vlen v + n <= usize_max ->
  layout_limit c (vbk v) < c_sz c * (vlen v + n) ->
  let p := if usize_max <? c_sz c * (vlen v + n) then POverflow else PLayout in
  exists u1 u2, reserve c n (v, u) = Panic p (v, u1) /\ reserve_exact c n (v, u) = Panic p (v, u2) /\
                same_user u u1 /\ same_user u u2.
Proof.
  intros [Hal1 Hal2] HR Hres Hcap Hlen Hlim p.
  assert (Hsz : c_sz c <> 0) by (intros E; rewrite E in Hlim; lia).
  assert (Hll : alloc_limit <= layout_limit c (vbk v)).
  { unfold layout_limit. destruct (vbk v); try lia; unfold alloc_limit, isize_max in *; lia. }
  assert (Hgt : vcap v < vlen v + n) by nia.
  unfold reserve, reserve_exact, bind, getv, of_ovf, of_opt, checked_add. cbn [fst snd].
  destruct (N.leb_spec (vlen v + n) usize_max) as [_|]; [|lia]. unfold ret at 1 3. cbn [fst snd].
  destruct (N.ltb_spec (vcap v) (vlen v + n)) as [_|]; [|lia].
  replace (vlen v + n - vcap v) with (vlen v + n - vcap v) by reflexivity.
  set (add := vlen v + n - vcap v).
  assert (Hadd : vcap v + add = vlen v + n) by (unfold add; lia).
  unfold mem_expand, mem_expand_exact, mem_resize, bind, getv, of_ovf, of_opt, checked_add, uadd. cbn [fst snd].
  rewrite Hadd. destruct (N.leb_spec (vlen v + n) usize_max) as [_|]; [|lia].
  destruct (vbk v) as [| | | |c0] eqn:Ebk; try (destruct Hres as [Hx|[cx Hx]]; discriminate).
  - (* heap *)
    unfold ret at 1 2. cbn [fst snd].
    assert (Hdbl : saturating_mul (vcap v) 2 = vcap v * 2).
    { unfold saturating_mul. destruct (N.leb_spec (vcap v * 2) usize_max) as [_|Hb]; [reflexivity|].
      unfold alloc_limit, usize_max in *. nia. }
    assert (Hmax : N.max (saturating_mul (vcap v) 2) (vlen v + n) = vlen v + n).
    { rewrite Hdbl. apply N.max_r. unfold layout_limit in Hlim. try rewrite Ebk in Hlim. cbv beta iota in Hlim.
      unfold alloc_limit, isize_max in *. nia. }
    rewrite Hmax.
    assert (Hhr : forall u0, heap_resize c (vlen v + n) (v, u0) = Panic p (v, u0)).
    { intros u0. unfold heap_resize, bind, getv, of_ovf, of_opt, checked_mul. cbn [fst snd].
      destruct (N.eqb_spec (vcap v) (vlen v + n)); [lia|].
      destruct (N.eqb_spec (c_sz c) 0); [contradiction|].
      destruct (N.eqb_spec (vlen v + n) 0); [lia|].
      unfold p. destruct (N.leb_spec (c_sz c * (vlen v + n)) usize_max) as [Hok|Hov].
      - destruct (N.ltb_spec usize_max (c_sz c * (vlen v + n))); [lia|].
        unfold ret. cbn [fst snd]. unfold layout_limit in Hlim. try rewrite Ebk in Hlim. cbv beta iota in Hlim.
        destruct (N.ltb_spec (isize_max - (c_al c - 1)) (c_sz c * (vlen v + n))); [reflexivity|lia].
      - destruct (N.ltb_spec usize_max (c_sz c * (vlen v + n))); [reflexivity|lia]. }
    exists u, u. cbn [fst snd]. rewrite ?Ebk. rewrite !Hhr. split; [reflexivity|]. split; [reflexivity|]. split; apply same_user_refl.
  - (* relocating backend *)
    assert (Hrr : forall u0, reloc_resize c (vlen v + n) (v, u0) = Panic p (v, u0)).
    { intros u0. unfold reloc_resize, bind, getv, of_ovf, of_opt, checked_mul. cbn [fst snd].
      unfold p. destruct (N.leb_spec (c_sz c * (vlen v + n)) usize_max) as [Hok|Hov].
      - destruct (N.ltb_spec usize_max (c_sz c * (vlen v + n))); [lia|].
        unfold ret. cbn [fst snd]. unfold layout_limit in Hlim. try rewrite Ebk in Hlim. cbv beta iota in Hlim.
        destruct (N.ltb_spec alloc_limit (c_sz c * (vlen v + n))); [reflexivity|lia].
      - destruct (N.ltb_spec usize_max (c_sz c * (vlen v + n))); [reflexivity|lia]. }
    unfold emitv. cbn [fst snd]. unfold ret at 1 2. cbn [fst snd].
    exists (emit (EExpand add) u), (emit (EResize (vlen v + n)) u).
    cbn [fst snd]. rewrite ?Ebk. unfold emitv. cbn [fst snd]. rewrite !Hrr. split; [reflexivity|]. split; [reflexivity|]. split; apply same_user_emit; reflexivity.
Qed.

Lemma mem_resize_layout_panic c v u n :
  cfg_wf c -> resizable_backend (vbk v) -> c_sz c * vcap v <= alloc_limit ->
  layout_limit c (vbk v) < c_sz c * n ->
  let p := if usize_max <? c_sz c * n then POverflow else PLayout in
  exists u1, mem_resize c n (v, u) = Panic p (v, u1) /\ same_user u u1.
Proof.
  intros [Hal1 Hal2] Hres Hcap Hlim p.
  assert (Hsz : c_sz c <> 0) by (intros E; rewrite E in Hlim; lia).
  assert (Hll : alloc_limit <= layout_limit c (vbk v)).
  { unfold layout_limit. destruct (vbk v); try lia; unfold alloc_limit, isize_max in *; lia. }
  assert (Hne : vcap v <> n) by (intros E; rewrite E in Hcap; lia).
  assert (Hn0 : n <> 0) by (intros E; rewrite E in Hlim; lia).
  unfold mem_resize, bind, getv. cbn [fst snd].
  destruct (vbk v) as [| | | |c0] eqn:Ebk; try (destruct Hres as [Hx|[cx Hx]]; discriminate).
  - exists u. split; [|apply same_user_refl].
    unfold heap_resize, bind, getv, of_ovf, of_opt, checked_mul. cbn [fst snd].
    destruct (N.eqb_spec (vcap v) n); [contradiction|].
    destruct (N.eqb_spec (c_sz c) 0); [contradiction|].
    destruct (N.eqb_spec n 0); [contradiction|].
    unfold p. destruct (N.leb_spec (c_sz c * n) usize_max) as [Hok|Hov].
    + destruct (N.ltb_spec usize_max (c_sz c * n)); [lia|].
      unfold ret. cbn [fst snd]. unfold layout_limit in Hlim. cbv beta iota in Hlim.
      destruct (N.ltb_spec (isize_max - (c_al c - 1)) (c_sz c * n)); [reflexivity|lia].
    + destruct (N.ltb_spec usize_max (c_sz c * n)); [reflexivity|lia].
  - exists (emit (EResize n) u). split; [|apply same_user_emit; reflexivity].
    unfold emitv. cbn [fst snd].
    unfold reloc_resize, bind, getv, of_ovf, of_opt, checked_mul. cbn [fst snd].
    unfold p. destruct (N.leb_spec (c_sz c * n) usize_max) as [Hok|Hov].
    + destruct (N.ltb_spec usize_max (c_sz c * n)); [lia|].
      unfold ret. cbn [fst snd]. unfold layout_limit in Hlim. cbv beta iota in Hlim.
      destruct (N.ltb_spec alloc_limit (c_sz c * n)); [reflexivity|lia].
    + destruct (N.ltb_spec usize_max (c_sz c * n)); [reflexivity|lia].
Qed.

Lemma exec_panics_same_user c w st vid av vv (m : M Vec.st unit) p r u' :
  WRep c w st -> get_a vid st = Some av -> get_vec vid w = Some vv -> VI c vv av -> ufuse (wuw w) = None ->
  r = panic_res p [] st (unext (wuw w)) ->
  m (vv, wuw w) = Panic p (vv, u') -> same_user (wuw w) u' ->
  res_matches c w ((on_vec vid m;; ret (0, @nil N)) w) r.
Proof.
  intros HW Hg Hgv HV Hfuse -> E Hsu. destruct (same_user_events _ _ Hsu) as (He & Hn & Hf).
  unfold bind. rewrite (on_vec_panic vid _ w vv p vv u' Hgv E).
  cbn [res_matches panic_res s_out s_pk s_ret s_st s_evs s_nx].
  split; [reflexivity|split; [reflexivity|split; [reflexivity|]]]. rewrite N.sub_diag.
  constructor.
  - apply (wrep_put_same c w st vid vv av); assumption.
  - rewrite wuw_put. lia.
  - rewrite wuw_put. congruence.
  - rewrite wuw_put. exact He.
Qed.

Lemma exec_capacity c w st vid want exact r :
  cfg_wf c -> WRep c w st -> ufuse (wuw w) = None ->
  sp_capacity c st (unext (wuw w)) vid want exact = Some r ->
  match want with Some n => adm_reserve c w vid n | None => adm_shrink c w vid end ->
  forall m : M Vec.st unit,
  (forall n, want = Some n -> m = if exact then reserve_exact c n else reserve c n) ->
  (want = None -> m = shrink_to_fit c \/ exists k, m = shrink_to c k) ->
  res_matches c w ((on_vec vid m;; ret (0, @nil N)) w) r.
Proof.
  intros Hwf HW Hfuse Hr Hadm m Hres Hshr.
  unfold sp_capacity in Hr. destruct (get_a vid st) as [av|] eqn:Hg; [|discriminate].
  destruct (wrep_get c w st vid av HW Hg) as (vv & Hgv & HV).
  pose proof (vi_rep _ _ _ HV) as HR. pose proof (rep_len _ _ _ HR) as Hlen. pose proof (rep_cap _ _ _ HR) as Hle.
  destruct want as [n|].
  - specialize (Hres n eq_refl). specialize (Hadm vv Hgv). rewrite <- Hlen in Hr.
    destruct (N.ltb_spec usize_max (vlen vv + n)) as [Hov|Hnov].
    + injection Hr as <-. destruct (reserve_overflow c vv (wuw w) n Hov) as [E1 E2].
      apply (exec_panics_unchanged c w st vid av vv m POverflow); auto. subst m. destruct exact; assumption.
    + destruct (acap c (a_bk av)) as [cap|] eqn:Ea.
      * assert (Hcap : vcap vv = cap). { pose proof (vi_cap _ _ _ HV) as H. rewrite Ea in H. exact H. }
        assert (Hfx : fixed_backend (vbk vv)). { rewrite (vi_bk _ _ _ HV). eapply acap_fixed; eauto. }
        rewrite <- Hcap in Hr.
        destruct (N.leb_spec (vlen vv + n) (vcap vv)) as [Hroom|Hno].
        -- injection Hr as <-. destruct (reserve_noop c vv (wuw w) (a_xs av) n HR Hroom) as [E1 E2].
           apply (exec_keeps c w st vid av vv m); auto.
           exists vv, (wuw w). subst m. split; [destruct exact; assumption|].
           split; [exact HR|]. split; [reflexivity|]. split; [apply same_user_refl|auto].
        -- destruct exact; [discriminate|]. injection Hr as <-.
           apply (exec_panics_unchanged c w st vid av vv m PCapacity); auto. subst m.
           apply reserve_fixed; assumption.
      * assert (Hres' : resizable_backend (vbk vv)). { rewrite (vi_bk _ _ _ HV). eapply acap_none_resizable; eauto. }
        assert (Hnf : ~ fixed_backend (vbk vv)). { rewrite (vi_bk _ _ _ HV). eapply acap_none_not_fixed; eauto. }
        cbv zeta in Hr. rewrite <- (vi_bk _ _ _ HV) in Hr.
        destruct (N.ltb_spec (layout_limit c (vbk vv)) (c_sz c * (vlen vv + n))) as [Hbig|Hsmall].
        { (* refused before the allocator is asked *)
          injection Hr as <-.
          assert (Hll : alloc_limit <= layout_limit c (vbk vv)).
          { destruct Hwf as [_ Hal]. unfold layout_limit. destruct (vbk vv); unfold alloc_limit, isize_max in *; lia. }
          assert (Hcapl : c_sz c * vcap vv <= alloc_limit).
          { destruct Hadm as [[Hr1 Hr2]|[Hf|[Ho|[[Hg1 Hg2]|(_ & Hcl & _)]]]]; [exact Hr2|contradiction|lia|lia|exact Hcl]. }
          assert (Hnoroom : vcap vv < vlen vv + n) by nia.
          destruct (reserve_layout_panic c vv (wuw w) (a_xs av) n Hwf HR Hres' Hcapl Hnov Hbig) as (u1 & u2 & E1 & E2 & S1 & S2).
          set (pp := if usize_max <? c_sz c * (vlen vv + n) then POverflow else PLayout) in *.
          subst m. destruct exact.
          - apply (exec_panics_same_user c w st vid av vv _ pp _ u2); auto.
          - apply (exec_panics_same_user c w st vid av vv _ pp _ u1); auto. }
        injection Hr as <-.
        destruct (N.le_gt_cases (vlen vv + n) (vcap vv)) as [Hroom|Hno].
        -- destruct (reserve_noop c vv (wuw w) (a_xs av) n HR Hroom) as [E1 E2].
           apply (exec_keeps c w st vid av vv m); auto.
           exists vv, (wuw w). subst m. split; [destruct exact; assumption|].
           split; [exact HR|]. split; [reflexivity|]. split; [apply same_user_refl|auto].
        -- destruct Hadm as [Hr1|[Hf|[Ho|[[Hg1 Hg2]|(_ & _ & Hb)]]]]; try lia; try contradiction.
           apply (exec_keeps c w st vid av vv m); auto. subst m. destruct exact.
           ++ destruct (reserve_exact_grows c vv (wuw w) (a_xs av) n Hwf HR Hres' Hno Hnov Hg2) as (v' & u' & E & H1 & H2 & H3 & H4).
              exists v', u'. split; [exact E|]. split; [exact H1|]. split; [exact H3|]. split; [exact H4|]. intros F; contradiction.
           ++ destruct (reserve_grows c vv (wuw w) (a_xs av) n Hwf HR Hno Hg1) as (v' & u' & E & H1 & H2 & H3 & H4 & H5).
              exists v', u'. split; [exact E|]. split; [exact H1|]. split; [exact H4|]. split; [exact H5|]. intros F; contradiction.
  - destruct (resizable (a_bk av)) eqn:Hrz; [|discriminate]. injection Hr as <-.
    destruct (resizable_spec _ Hrz) as [Hres' Hnone]. rewrite <- (vi_bk _ _ _ HV) in Hres'.
    assert (Hnf : ~ fixed_backend (vbk vv)). { rewrite (vi_bk _ _ _ HV). eapply acap_none_not_fixed. apply (Hnone c). }
    specialize (Hadm vv Hgv).
    apply (exec_keeps c w st vid av vv m); auto.
    destruct (Hshr eq_refl) as [-> | [k ->]].
    + destruct (shrink_to_fit_spec c vv (wuw w) (a_xs av) Hwf HR Hres' Hadm) as (v' & u' & E & H1 & H2 & H3 & H4).
      exists v', u'. split; [exact E|]. split; [exact H1|]. split; [exact H3|]. split; [exact H4|]. intros F; contradiction.
    + destruct (shrink_to_spec c vv (wuw w) (a_xs av) k Hwf HR Hres' Hadm) as (v' & u' & E & H1 & H2 & H3 & H4 & _).
      exists v', u'. split; [exact E|]. split; [exact H1|]. split; [exact H3|]. split; [exact H4|]. intros F; contradiction.
Qed.

Lemma exec_build c w st dst bk v0 r :
  WRep c w st -> ufuse (wuw w) = None -> bk_wf bk ->
  sp_new c st (unext (wuw w)) dst bk = Some r ->
  res_matches c w (match mem_build c bk (v0, wuw w) with
                   | Ok _ (v, u) => Ok (0, []) (put_vec dst (Some v) u w)
                   | Panic p (_, u) => Panic p {| wv := wv w; wuw := u |}
                   | Fault f => Fault f
                   end) r.
Proof.
  intros HW Hfuse Hbw Hr. unfold sp_new in Hr.
  pose proof (new_vi c bk v0 (wuw w) Hbw) as Hn.
  assert (Hok : forall v' u', mem_build c bk (v0, wuw w) = Ok tt (v', u') ->
                VI c v' {| a_bk := bk; a_xs := [] |} -> same_user (wuw w) u' ->
                r = ok_res [] [] (set_a dst (Some {| a_bk := bk; a_xs := [] |}) st) (unext (wuw w)) ->
                res_matches c w (match mem_build c bk (v0, wuw w) with
                   | Ok _ (v, u) => Ok (0, []) (put_vec dst (Some v) u w)
                   | Panic p (_, u) => Panic p {| wv := wv w; wuw := u |}
                   | Fault f => Fault f
                   end) r).
  { intros v' u' E HV Hsu ->. rewrite E.
    destruct (same_user_events _ _ Hsu) as (He & Hnx & Hf).
    cbn [res_matches ok_res s_out s_pk s_ret s_st s_evs s_nx].
    split; [reflexivity|split; [reflexivity|split; [reflexivity|]]]. rewrite N.sub_diag.
    constructor.
    - apply wrep_put; [exact HW|exact HV].
    - rewrite wuw_put. lia.
    - rewrite wuw_put. congruence.
    - rewrite wuw_put. exact He. }
  destruct bk as [|size|n size| |c0].
  - destruct Hn as (v' & u' & E & HV & Hsu). injection Hr as <-. exact (Hok v' u' E HV Hsu eq_refl).
  - destruct Hn as (v' & u' & E & HV & Hsu). injection Hr as <-. exact (Hok v' u' E HV Hsu eq_refl).
  - destruct (stackn_fits n (c_sz c) size) eqn:Hfit.
    + destruct Hn as (v' & u' & E & HV & Hsu). injection Hr as <-. exact (Hok v' u' E HV Hsu eq_refl).
    + injection Hr as <-. rewrite Hn.
      cbn [res_matches panic_res s_out s_pk s_ret s_st s_evs s_nx].
      split; [reflexivity|split; [reflexivity|split; [reflexivity|]]]. rewrite N.sub_diag.
      assert (Hw : {| wv := wv w; wuw := wuw w |} = w) by (destruct w; reflexivity). rewrite Hw.
      apply step_ok_refl; assumption.
  - destruct Hn as (v' & u' & E & HV & Hsu). injection Hr as <-. exact (Hok v' u' E HV Hsu eq_refl).
  - destruct Hn as (v' & u' & E & HV & Hsu). injection Hr as <-. exact (Hok v' u' E HV Hsu eq_refl).
Qed.

Lemma vi_consistent c v a : VI c v a -> backend_consistent c v.
Proof.
  intros [HR Hbk Hwf Hcap Hfits]. unfold backend_consistent. rewrite Hbk.
  destruct (a_bk a) as [|size|n size| |c0]; cbn [acap] in Hcap; auto.
Qed.

Lemma exec_clone c w st v dst r :
  cfg_wf c -> WRep c w st -> ufuse (wuw w) = None ->
  sp_clone c st (unext (wuw w)) v dst = Some r -> adm_clone c w v ->
  res_matches c w (exec c (OClone v dst) w) r.
Proof.
  intros Hwf HW Hfuse Hr Hadm. unfold sp_clone in Hr.
  destruct (Nat.eqb dst v); [discriminate|].
  destruct (get_a v st) as [av|] eqn:Hg; [|discriminate]. injection Hr as <-.
  destruct (wrep_get c w st v av HW Hg) as (sv & Hgv & HV).
  pose proof (vi_rep _ _ _ HV) as HR. pose proof (rep_len _ _ _ HR) as Hlen.
  assert (Hbw : bk_wf (vbk sv)) by (rewrite (vi_bk _ _ _ HV); apply (vi_wf _ _ _ HV)).
  assert (Hfit : fixed_backend (vbk sv) \/
                 (N.of_nat (length (a_xs av)) <= usize_max /\
                  c_sz c * grow_target {| vlen := 0; vcap := 0; vmem := []; vgen := 0; vbk := vbk sv |}
                             (N.of_nat (length (a_xs av))) <= alloc_limit)).
  { rewrite <- Hlen. apply (Hadm sv Hgv). }
  destruct (clone_vec_ok c sv (wuw w) (a_xs av) sv Hwf Hbw (vi_consistent _ _ _ HV) HR Hfuse Hfit)
    as (v' & u' & E & HR' & Hbk' & Hly & Hn' & Hf' & He' & Hc').
  cbn [exec]. rewrite (bind_ok _ _ _ _ _ (peek_vec_ok v w sv Hgv)). rewrite E.
  cbn [res_matches ok_res s_out s_pk s_ret s_st s_evs s_nx].
  split; [reflexivity|split; [reflexivity|split; [reflexivity|]]].
  constructor.
  - apply wrep_put; [exact HW|]. destruct HV as [HRs Hbk Hwfb Hcap Hfits].
    constructor; cbn [a_bk a_xs]; auto.
    + congruence.
    + destruct (acap c (a_bk av)) as [cap|] eqn:Ea; [|exact I].
      rewrite Hc'; [exact Hcap|]. rewrite Hbk. eapply acap_fixed; eauto.
  - rewrite wuw_put. rewrite Hn'. lia.
  - rewrite wuw_put. exact Hf'.
  - rewrite wuw_put. exact He'.
Qed.

