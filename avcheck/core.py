"""Build steps, case execution (model + implementation), trace comparison."""
import hashlib, json, os, random, re, subprocess, sys, time, shutil
from concurrent.futures import ThreadPoolExecutor

ROOT = os.path.dirname(os.path.dirname(os.path.abspath(__file__)))
CACHE = os.path.join(ROOT, ".cache")
REPO = "/repo"
COQ = os.path.join(ROOT, "coq")
HARNESS = os.path.join(ROOT, "harness")
MLRUN = os.path.join(ROOT, "mlrun")
ENV = dict(os.environ, CARGO_NET_OFFLINE="true", CARGO_TERM_COLOR="never")
NPROC = 16

class BuildBroken(Exception):
    """A build step that depends on /repo failed (broken correspondence)."""
    def __init__(self, what, output):
        super().__init__(what)
        self.what, self.output = what, output

class ObligationBroken(Exception):
    """A theorem that is re-checked against a model regenerated from /repo no longer holds."""
    def __init__(self, pid, output):
        super().__init__(pid)
        self.pid, self.output = pid, output

class ToolBroken(Exception):
    """A build step that depends only on /verif failed (my bug, not a violation)."""

def sh(cmd, cwd=None, timeout=3600, env=None):
    p = subprocess.run(cmd, cwd=cwd, env=env or ENV, stdout=subprocess.PIPE, stderr=subprocess.STDOUT,
                       text=True, timeout=timeout, shell=isinstance(cmd, str))
    return p.returncode, p.stdout

def file_hash(path):
    h = hashlib.sha1()
    with open(path, "rb") as f:
        for chunk in iter(lambda: f.read(1 << 20), b""):
            h.update(chunk)
    return h.hexdigest()[:16]

def tree_hash(paths, exts):
    h = hashlib.sha1()
    for root in paths:
        for d, dirs, files in sorted(os.walk(root)):
            dirs.sort()
            if "/target" in d or "/.git" in d:
                continue
            for f in sorted(files):
                if f.endswith(exts):
                    p = os.path.join(d, f)
                    h.update(p.encode())
                    h.update(open(p, "rb").read())
    return h.hexdigest()[:16]

# ----------------------------------------------------------------------------------
# Coq
# ----------------------------------------------------------------------------------
# property files whose proof is re-checked against a table regenerated from /repo: a failure
# there is a broken proof obligation of that property, not a broken framework
REGENERATED_DEPENDENTS = ["AV/Props/C15.v", "AV/Props/C16.v", "AV/Props/C19.v"]
LAST_COQ = {"failed": [], "output": ""}

def ensure_coq(clean=False):
    """make in /verif/coq (incremental). Returns wall seconds."""
    t0 = time.time()
    if clean:
        sh("make clean >/dev/null 2>&1; rm -f Makefile Makefile.conf .Makefile.d", cwd=COQ)
    files = []
    for d, _, fs in sorted(os.walk(os.path.join(COQ, "AV"))):
        if d.endswith("Extract"):
            continue
        for f in sorted(fs):
            if f.endswith(".v"):
                files.append(os.path.relpath(os.path.join(d, f), COQ))
    proj = open(os.path.join(COQ, "_CoqProject")).read().split("\n")
    proj = [l for l in proj if not l.endswith(".v")]
    want = "\n".join([l for l in proj if l.strip()] + files) + "\n"
    if open(os.path.join(COQ, "_CoqProject")).read() != want:
        open(os.path.join(COQ, "_CoqProject"), "w").write(want)
    if not os.path.exists(os.path.join(COQ, "Makefile")) or \
       os.path.getmtime(os.path.join(COQ, "Makefile")) < os.path.getmtime(os.path.join(COQ, "_CoqProject")):
        rc, out = sh("coq_makefile -f _CoqProject -o Makefile", cwd=COQ)
        if rc != 0:
            raise ToolBroken("coq_makefile failed:\n" + out)
    rc, out = sh("timeout 3000 make -k -j%d 2>&1" % NPROC, cwd=COQ)
    failed = sorted(set(re.findall(r'File "\./(AV/[^"]+\.v)"', out))) if rc != 0 else []
    LAST_COQ["failed"] = failed
    LAST_COQ["output"] = out[-6000:]
    hard = [f for f in failed if f not in REGENERATED_DEPENDENTS]
    if rc != 0 and (hard or not failed):
        raise ToolBroken("coq build failed:\n" + out[-4000:])
    return time.time() - t0

def props_report(pid):
    """Re-run coqc on the property file; return (theorems, assumptions text)."""
    f = os.path.join(COQ, "AV", "Props", pid + ".v")
    if not os.path.exists(f):
        return None
    rc, out = sh("timeout 600 coqc -Q AV AV AV/Props/%s.v" % pid, cwd=COQ)
    if rc != 0:
        if "AV/Props/%s.v" % pid in REGENERATED_DEPENDENTS:
            raise ObligationBroken(pid, out[-3000:])
        raise ToolBroken("property file %s does not compile:\n%s" % (pid, out[-3000:]))
    return out

def coqchk(pid):
    """Independent re-check of the compiled property file and everything it depends on (thorough tier).
    -> (ok, summary text)"""
    rc, out = sh("timeout 3000 coqchk -o -silent -Q AV AV AV.Props.%s 2>&1" % pid, cwd=COQ)
    summary = out[out.find("CONTEXT SUMMARY"):] if "CONTEXT SUMMARY" in out else out[-1500:]
    flat = " ".join(summary.split())
    ok = (rc == 0 and "Axioms: <none>" in flat and "type-in-type: <none>" in flat
          and "unsafe (co)fixpoints: <none>" in flat and "positivity is assumed: <none>" in flat)
    return ok, flat[:600]

FORBIDDEN = ["Admitted", "admit.", "Axiom ", "Parameter ", "Conjecture ", "Unset Guard", "bypass_check",
             "type-in-type", "Admit Obligations", "impredicative-set"]
def grep_forbidden():
    bad = []
    for d, _, fs in os.walk(os.path.join(COQ, "AV")):
        for f in fs:
            if f.endswith(".v"):
                p = os.path.join(d, f)
                for i, line in enumerate(open(p), 1):
                    code = line.split("(*")[0]
                    for w in FORBIDDEN:
                        if w in code:
                            bad.append("%s:%d: %s" % (os.path.relpath(p, COQ), i, line.strip()))
    return bad

# ----------------------------------------------------------------------------------
# extracted model
# ----------------------------------------------------------------------------------
def ensure_model():
    """Extract the model and build mlrun/avmodel (cached on the hash of the model sources)."""
    gen = os.path.join(CACHE, "mlrun")
    os.makedirs(gen, exist_ok=True)
    key = tree_hash([os.path.join(COQ, "AV", "Model"), os.path.join(COQ, "AV", "Spec"), os.path.join(COQ, "AV", "Proofs"),
                     os.path.join(COQ, "AV", "Extract"), MLRUN], (".v", ".ml"))
    stamp = os.path.join(gen, "stamp")
    exe = os.path.join(gen, "avmodel")
    if os.path.exists(exe) and os.path.exists(stamp) and open(stamp).read() == key:
        return exe
    rc, out = sh("timeout 600 coqc -Q %s/AV AV %s/AV/Extract/Extract.v" % (COQ, COQ), cwd=gen)
    for junk in ("Extract.vo", "Extract.glob", "Extract.vok", "Extract.vos", ".Extract.aux"):
        try: os.remove(os.path.join(COQ, "AV", "Extract", junk))
        except OSError: pass
    if rc != 0:
        raise ToolBroken("extraction failed:\n" + out[-3000:])
    shutil.copy(os.path.join(MLRUN, "driver.ml"), os.path.join(gen, "driver.ml"))
    rc, out = sh("timeout 600 ocamlfind ocamlopt -package zarith -linkpkg -w -a model.mli model.ml driver.ml -o avmodel", cwd=gen)
    if rc != 0:
        raise ToolBroken("ocaml build failed:\n" + out[-3000:])
    open(stamp, "w").write(key)
    return exe

# ----------------------------------------------------------------------------------
# harness
# ----------------------------------------------------------------------------------
def ensure_harness(tier, profiles=("debug", "release")):
    """cargo build of the harness bins against /repo's working tree.
    tier: quick | thorough | noalloc (any_vec built with default features disabled).
    Returns (routing, {profile: bindir})."""
    rc, out = sh([sys.executable, os.path.join(HARNESS, "gen_bins.py"), tier], cwd=HARNESS)
    if rc != 0:
        raise ToolBroken("gen_bins failed:\n" + out)
    routing = json.loads(out)
    lock = os.path.join(HARNESS, "Cargo.lock")
    if not os.path.exists(lock):
        sh("cargo generate-lockfile --offline", cwd=HARNESS)
    bins = " ".join("--bin %s" % b for b in sorted(set(routing.values())))
    dirs = {}
    for prof in profiles:
        flag = "--release" if prof == "release" else ""
        if tier == "noalloc":
            flag += " --no-default-features --features noalloc --target-dir target-noalloc"
        rc, out = sh("timeout 3000 cargo build --offline %s %s 2>&1" % (flag, bins), cwd=HARNESS)
        if rc != 0:
            raise BuildBroken("harness does not compile against /repo (%s, %s)" % (tier, prof), out[-6000:])
        dirs[prof] = os.path.join(HARNESS, "target-noalloc" if tier == "noalloc" else "target", prof)
    return routing, dirs

# ----------------------------------------------------------------------------------
# running cases
# ----------------------------------------------------------------------------------
def cfg_key(cfg):
    return "%d/%d/%d/%s/%s" % (cfg["sz"], cfg["al"], cfg["dg"], cfg["tr"], cfg["be"])

def parse_trace(path):
    """-> {case_id: [line dicts]} ; end lines under key (id, 'end')."""
    res = {}
    if not os.path.exists(path):
        return res
    for line in open(path, errors="replace"):     # a corrupted implementation may print garbage
        line = line.rstrip("\n")
        if not line:
            continue
        toks = line.split(" ")
        if len(toks) < 2:       # a torn line (the process died or printed garbage): the case's trace ends here
            continue
        cid = toks[0]
        if toks[1] == "skipped":
            res.setdefault(cid, []).append({"_skipped": toks[2]})
            continue
        d = {"_step": toks[1], "_raw": line}
        for t in toks[2:]:
            k, _, v = t.partition("=")
            d[k] = v
        res.setdefault(cid, []).append(d)
    return res

HUNG = -999
import threading
CONSUME_LOCK = threading.Lock()
HARNESS_AS_LIMIT = 6 << 30      # bytes of address space per harness process
class _Done:
    def __init__(self, rc, out): self.returncode, self.stdout = rc, out
def run_watched(cmd, outfile, quiet_s=30.0):
    """Run the harness; the trace file is flushed after every step, so a process whose trace has not grown for
    [quiet_s] seconds is looping: it is killed and reported with return code HUNG (a violation, never a hung check)."""
    import tempfile
    with tempfile.TemporaryFile("w+") as so:
        def limit():
            # a corrupted implementation may ask the allocator for absurd amounts: it must fail inside that
            # process (allocation error -> the case is reported), not exhaust the machine
            import resource
            resource.setrlimit(resource.RLIMIT_AS, (HARNESS_AS_LIMIT, HARNESS_AS_LIMIT))
        p = subprocess.Popen(cmd, stdout=so, stderr=subprocess.STDOUT, text=True, preexec_fn=limit)
        last, t_last = -1, time.time()
        while True:
            try:
                rc = p.wait(timeout=0.5)
                break
            except subprocess.TimeoutExpired:
                pass
            try: sz = os.path.getsize(outfile)
            except OSError: sz = 0
            now = time.time()
            if sz != last:
                last, t_last = sz, now
            elif now - t_last > quiet_s:
                p.kill(); p.wait()
                rc = HUNG
                break
        so.seek(0)
        return _Done(rc, so.read()[-4000:])

RAN = set()    # ids of the cases the last run_batches handed to a harness binary
SPEC = {}      # case id -> per step: the list specification's prediction (dict) or None (step outside the proven fragment)

def parse_spec(path):
    res = {}
    if not os.path.exists(path):
        return res
    for line in open(path):
        toks = line.rstrip("\n").split(" ")
        if len(toks) < 3:
            continue
        if toks[2] == "-":
            res.setdefault(toks[0], []).append(None)
            continue
        d = {"_raw": " ".join(toks[2:])}
        for t in toks[2:]:
            k, _, v = t.partition("=")
            d[k] = v
        res.setdefault(toks[0], []).append(d)
    return res

def run_batches(cases, model_exe, routing, bindirs, workdir, tag, consume=None):
    """cases: list of (case_id, cfg, steps). Writes case files grouped by (binary,
    profile, shard), runs model and harness on each, returns (model, impl) traces and
    the set of case ids that were lost (process crashed before writing a trace).
    With [consume], every shard's traces are handed to consume(model, impl, spec) as soon as the shard has run
    and are then forgotten (the whole run never sits in memory); (None, None, crashed) is returned."""
    os.makedirs(workdir, exist_ok=True)
    from . import gen
    groups = {}
    RAN.clear()
    SPEC.clear()
    for cid, cfg, steps in cases:
        b = routing.get(cfg_key(cfg))
        if b is None:
            continue
        RAN.add(cid)
        prof = "debug" if cfg["trap"] else "release"
        groups.setdefault((b, prof), []).append("%s %s ; %s" % (cid, gen.cfg_head(cfg), " ; ".join(steps)))
    jobs = []
    for (b, prof), lines in groups.items():
        nshard = max(1, min(NPROC, len(lines) // 400))
        for s in range(nshard):
            part = lines[s::nshard]
            base = os.path.join(workdir, "%s-%s-%s-%d" % (tag, b, prof, s))
            open(base + ".case", "w").write("\n".join(part) + "\n")
            jobs.append((b, prof, base))
    def run_impl(exe, lines, base):
        """Run the harness on the case lines; a process death loses only the case that caused it: that case
        is marked, the cases after it are run in a fresh process.  -> (traces, [(case id, rc, output)])"""
        traces, died = {}, []
        todo = list(lines)
        attempt = 0
        hangs = 0
        while todo:
            if hangs >= 3 or len(died) >= 25:
                # an implementation that keeps hanging or dying: the remaining cases of the shard are reported as not
                # run (each death / hang is a violation of its own; re-running the rest after every one of thousands
                # would take quadratic time)
                for l in todo:
                    cid = l.split(" ", 1)[0]
                    traces[cid] = [{"_step": "0", "_raw": "<not run: the implementation hung %d times and died %d times in this shard>" % (hangs, len(died)),
                                    "viol": "process-hung_not-run" if hangs >= 3 else "process-died_not-run"}]
                break
            cf, of = "%s.r%d.case" % (base, attempt), "%s.r%d.impl" % (base, attempt)
            open(cf, "w").write("\n".join(todo) + "\n")
            try: os.remove(of)
            except OSError: pass
            r = run_watched([exe, cf, of], of)
            got = parse_trace(of)
            traces.update(got)
            if r.returncode == 0:
                break
            if r.returncode == HUNG:
                hangs += 1
            # first case without an end line is the one that killed the process
            k = 0
            while k < len(todo):
                cid = todo[k].split(" ", 1)[0]
                ls = got.get(cid)
                if ls and (ls[-1].get("_step") == "end" or "_skipped" in ls[-1]):
                    k += 1
                    continue
                break
            if k >= len(todo):
                break
            cid = todo[k].split(" ", 1)[0]
            what = "process-hung" if r.returncode == HUNG else "process-died_rc=%d" % r.returncode
            traces[cid] = (got.get(cid) or []) + [{"_step": str(len(got.get(cid) or [])), "_raw": "<%s>" % what, "viol": what}]
            died.append((cid, r.returncode, r.stdout[-600:]))
            todo = todo[k + 1:]
            attempt += 1
        return traces, died
    def run_one(job):
        b, prof, base = job
        # the extracted model recurses over byte lists (storages of a few MiB in the growth-policy cases): give it the stack
        def _stack():
            try:
                import resource
                hard = resource.getrlimit(resource.RLIMIT_STACK)[1]
                resource.setrlimit(resource.RLIMIT_STACK, (hard, hard))
            except Exception:
                pass
        r1 = subprocess.run([model_exe, base + ".case", base + ".model", base + ".spec"], stdout=subprocess.PIPE, stderr=subprocess.STDOUT, text=True,
                            preexec_fn=_stack)
        exe = os.path.join(bindirs[prof], b)
        lines = [l for l in open(base + ".case").read().split("\n") if l]
        traces, died = run_impl(exe, lines, base)
        if consume is not None and r1.returncode == 0:
            with CONSUME_LOCK:
                consume(parse_trace(base + ".model"), traces, parse_spec(base + ".spec"))
            traces = None
            # the traces have been compared: keep the case shard (small), drop the traces (gigabytes in the thorough
            # tier) unless asked to keep them
            if not os.environ.get("VERIF_KEEP_WORK"):
                import glob as _glob
                for f in [base + ".model", base + ".spec"] + _glob.glob(base + ".r*.impl") + _glob.glob(base + ".r*.case"):
                    try: os.remove(f)
                    except OSError: pass
        return (job, r1.returncode, r1.stdout, traces, died)
    model, impl, crashed = {}, {}, []
    with ThreadPoolExecutor(max_workers=NPROC) as ex:
        for job, rc1, o1, traces, died in ex.map(run_one, jobs):
            b, prof, base = job
            if rc1 != 0:
                raise ToolBroken("model run failed on %s:\n%s" % (base, o1[-2000:]))
            for d in died:
                crashed.append((base,) + d)
            if consume is None:
                model.update(parse_trace(base + ".model"))
                SPEC.update(parse_spec(base + ".spec"))
                impl.update(traces)
    if consume is not None:
        return None, None, crashed
    return model, impl, crashed

def run_single(case_line, exe, workdir, name):
    """Run one case in its own process (used for crash isolation and replays)."""
    os.makedirs(workdir, exist_ok=True)
    base = os.path.join(workdir, name)
    open(base + ".case", "w").write(case_line + "\n")
    try: os.remove(base + ".out")
    except OSError: pass
    r = run_watched([exe, base + ".case", base + ".out"], base + ".out")
    return r.returncode, parse_trace(base + ".out"), r.stdout
