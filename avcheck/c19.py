"""C19: the crate built with default features disabled.

Static half (translator): rustc's own resolved view of the public API - rustdoc JSON of the
library built (a) with default features and (b) with `--no-default-features` - is turned into
the table AV/Gen/C19Table.v (one row per public item / inherent or trait method, with the
flags "present in the default build", "present in the no-alloc build", "heap related"), plus
the build facts (crates the no-alloc library links against, a no_std + no-allocator staticlib
that uses stack-backed vectors links).  AV/Props/C19.v re-checks its finite-domain theorem
against the regenerated table on every run.

Dynamic half: the stack-backend case families run on a harness linked against the
`--no-default-features` build; traces must equal the model's and the default build's."""
import json, os, re, shutil, sys
from . import core

WORK = os.path.join(core.CACHE, "c19")
PROBE = os.path.join(core.ROOT, "probes", "c19_nostd")

def rustdoc(feat_flag, name):
    tgt = os.path.join(WORK, "doc-" + name)
    rc, out = core.sh("timeout 900 cargo +nightly rustdoc --offline --lib %s --target-dir %s -- -Z unstable-options --output-format json 2>&1"
                      % (feat_flag, tgt), cwd=core.REPO)
    p = os.path.join(tgt, "doc", "any_vec.json")
    if rc != 0 or not os.path.exists(p):
        raise core.BuildBroken("rustdoc JSON of the library (%s build) failed" % name, out[-3000:])
    return json.load(open(p))

def ty_name(t):
    if not isinstance(t, dict):
        return "?"
    if "resolved_path" in t:
        return t["resolved_path"]["path"].split("::")[-1]
    if "borrowed_ref" in t:
        return "&" + ty_name(t["borrowed_ref"]["type"])
    if "generic" in t:
        return "<" + t["generic"] + ">"
    if "primitive" in t:
        return t["primitive"]
    return next(iter(t.keys()), "?")

def mentions_heap(obj):
    s = json.dumps(obj)
    return bool(re.search(r'"(?:[a-z_:]*::)?(Heap|HeapMem)"', s)) or "mem::heap" in s

def api_items(j):
    """-> {item key: heap_related}.  Items: public paths of the crate, and every method / associated
    item of a non-blanket, non-synthetic impl on one of the crate's types."""
    items = {}
    idx = j["index"]
    for k, v in j["paths"].items():
        if v["crate_id"] != 0:
            continue
        path = "::".join(v["path"])
        items["%s %s" % (v["kind"], path)] = ("::heap" in path) or path.split("::")[-1] in ("Heap", "HeapMem")
    for k, it in idx.items():
        inner = it.get("inner", {})
        if "impl" not in inner or it.get("crate_id", 0) != 0:
            continue
        im = inner["impl"]
        if im.get("blanket_impl") is not None or im.get("is_synthetic"):
            continue
        forty = ty_name(im["for"])
        tr = im["trait"]["path"].split("::")[-1] if im.get("trait") else "-"
        heap = forty in ("Heap", "HeapMem") or mentions_heap(im["for"]) or mentions_heap(im.get("trait"))
        for iid in im["items"]:
            m = idx.get(str(iid))
            if m is None or m.get("name") is None:
                continue
            vis = m.get("visibility")
            if tr == "-" and vis != "public":
                continue
            items["method %s::<%s>::%s" % (forty, tr, m["name"])] = heap
    return items

def regenerate():
    os.makedirs(WORK, exist_ok=True)
    jd = rustdoc("", "default")
    jn = rustdoc("--no-default-features", "noalloc")
    d, n = api_items(jd), api_items(jn)
    rows = []
    for key in sorted(set(d) | set(n)):
        rows.append(dict(name=key, in_default=key in d, in_noalloc=key in n, heap=bool(d.get(key) or n.get(key))))
    facts = dict(noalloc_crates=sorted(v["name"] for v in jn["external_crates"].values()),
                 default_crates=sorted(v["name"] for v in jd["external_crates"].values()))
    return rows, facts

def build_probes():
    """-> dict of build facts decided by cargo/rustc."""
    facts = {}
    rc, out = core.sh("timeout 900 cargo build --offline --lib --no-default-features --target-dir %s 2>&1" % os.path.join(WORK, "lib-noalloc"),
                      cwd=core.REPO)
    facts["lib_builds_without_default_features"] = (rc == 0)
    facts["lib_build_output"] = out[-600:] if rc != 0 else ""
    lock = os.path.join(PROBE, "Cargo.lock")
    if not os.path.exists(lock):
        core.sh("cargo generate-lockfile --offline", cwd=PROBE)
    rc, out = core.sh("timeout 900 cargo build --offline --target-dir %s 2>&1" % os.path.join(WORK, "nostd-probe"), cwd=PROBE)
    facts["nostd_noallocator_staticlib_links"] = (rc == 0)
    facts["nostd_output"] = out[-1200:] if rc != 0 else ""
    return facts

def coq_str(s):
    return '"' + s.replace('"', '""') + '"'
def b(x): return "true" if x else "false"

def write_table(rows, facts, builds):
    p = os.path.join(core.COQ, "AV", "Gen", "C19Table.v")
    crates_ok = set(facts.get("noalloc_crates", ["?"])) <= {"core", "compiler_builtins"}
    src = ["(* GENERATED on every run by avcheck/c19.py from rustdoc JSON of /repo (default and --no-default-features builds) and cargo build facts. Do not edit. *)",
           "From Coq Require Import List Bool String.", "Import ListNotations.", "Open Scope string_scope.",
           "From AV.Static Require Import C19Spec.",
           "Definition c19_items : list item := ["]
    body = []
    for r in rows:
        body.append("  {| i_name := %s; i_default := %s; i_noalloc := %s; i_heap := %s |}" %
                    (coq_str(r["name"]), b(r["in_default"]), b(r["in_noalloc"]), b(r["heap"])))
    src.append(";\n".join(body))
    src.append("].")
    src.append("Definition c19_facts : facts := {| f_lib_builds := %s; f_links_only_core := %s; f_nostd_staticlib_links := %s; f_noalloc_crates := [%s] |}." %
               (b(builds.get("lib_builds_without_default_features")), b(crates_ok), b(builds.get("nostd_noallocator_staticlib_links")),
                "; ".join(coq_str(c) for c in facts.get("noalloc_crates", []))))
    text = "\n".join(src) + "\n"
    if not os.path.exists(p) or open(p).read() != text:
        open(p, "w").write(text)
    return len(rows)

def rule(rows, facts, builds):
    """python mirror of C19Spec.table_ok used to name the failing cells. -> list of (what, detail)"""
    bad = []
    for r in rows:
        if r["in_noalloc"] and r["heap"]:
            bad.append(("heap-item-in-noalloc-build", r["name"]))
        if r["in_default"] and not r["heap"] and not r["in_noalloc"]:
            bad.append(("item-missing-without-alloc", r["name"]))
        if r["in_noalloc"] and not r["in_default"]:
            bad.append(("item-only-without-alloc", r["name"]))
    if not builds.get("lib_builds_without_default_features"):
        bad.append(("no-default-features-build-fails", builds.get("lib_build_output", "")))
    if not set(facts.get("noalloc_crates", ["?"])) <= {"core", "compiler_builtins"}:
        bad.append(("noalloc-build-links-more-than-core", ",".join(facts.get("noalloc_crates", []))))
    if not builds.get("nostd_noallocator_staticlib_links"):
        bad.append(("nostd-staticlib-without-allocator-does-not-link", builds.get("nostd_output", "")))
    if not any(r["heap"] and r["in_default"] for r in rows):
        bad.append(("default-build-offers-no-heap-backend", ""))
    return bad
