"""Case lines -> Gallina terms (mirror of the parser in mlrun/driver.ml), and the in-Coq re-evaluation
of a sample of cases (AV.Model.Trace, vm_compute) that cross-checks the extracted model binary."""
import os, re, subprocess
from . import core

def b(x): return "true" if x else "false"
def nat(s): return "%d%%nat" % int(s)
def n(s): return "%d" % int(s)

def bk(s):
    p = s.split(":")
    if p == ["heap"]: return "BHeap"
    if p[0] == "stack": return "(BStack %s)" % n(p[1])
    if p[0] == "stackn": return "(BStackN %s %s)" % (n(p[1]), n(p[2]))
    if p == ["empty"]: return "BEmpty"
    if p[0] == "reloc": return "(BReloc %s)" % (n(p[1]) if len(p) > 1 else "0")
    raise ValueError(s)
def api(s): return {"e": "Erased", "t": "Typed"}[s]
def tkind(s): return {"pop": "TPop", "rm": "TRemove", "srm": "TSwapRemove"}[s]
def src(s):
    p = s.split(":")
    if p == ["w"]: return "SWrap"
    if p == ["box"]: return "SBox"
    if p == ["raw"]: return "SRaw"
    if p == ["rawt"]: return "SRawT"
    if p == ["raws"]: return "SRawS"
    if p[0] == "wrong": return "(SWrong %s)" % n(p[1])
    if p[0] == "boxwrong": return "(SBoxWrong %s)" % n(p[1])
    if p[0] == "lz": return "(SLazy %s %s %s)" % (n(p[1]), nat(p[2]), n(p[3]))
    if p[0] == "ulz": return "(SLazyUser %s)" % n(p[1])
    if p[0] == "tmp": return "(STemp %s %s %s)" % (nat(p[1]), tkind(p[2]), n(p[3]))
    raise ValueError(s)
def sink(s):
    if "+" in s:
        hd, tl = s.split("+", 1)
        k = sink(tl)
        p = hd.split(":")
        if p == ["mut"]: return "(KMut %s)" % k
        if p[0] == "lz": return "(KLazy %s %s %s)" % (n(p[1]), nat(p[2]), k)
        if p[0] == "lzd": return "(KLazyDown %s %s)" % (n(p[1]), k)
        raise ValueError(s)
    p = s.split(":")
    if p == ["drop"]: return "KDrop"
    if p == ["down"]: return "KDown"
    if p[0] == "push": return "(KPush %s)" % nat(p[1])
    if p[0] == "ins": return "(KIns %s %s)" % (nat(p[1]), n(p[2]))
    if p == ["forget"]: return "KForget"
    raise ValueError(s)
def bound(s):
    if s == "u": return "BUnbounded"
    return "(%s %s)" % ({"i": "BIncluded", "x": "BExcluded"}[s[0]], n(s[1:]))
def lst(items): return "[" + "; ".join(items) + "]"
def pat_ro(s): return lst([] if s == "-" else [b(c == "F") for c in s])
def pat(s):
    if s == "-": return lst([])
    items = []
    for it in s.split(","):
        front, rest = b(it[0] == "F"), it[1:]
        m = re.match(r"^(\d+)~(.*)$", rest)
        if m:       # nth(k): k items passed over (KSkip), then an ordinary call
            items += ["(%s, KSkip)" % front] * int(m.group(1))
            rest = m.group(2)
        items.append("(%s, %s)" % (front, sink(rest)))
    return lst(items)
def pat_nth(s): return lst([] if s == "-" else ["(%s, %s)" % (b(it[0] == "F"), n(it[1:])) for it in s.split(",")])
def fin(s): return {"drop": "FinDrop", "forget": "FinForget"}[s]
def ik(s): return {"ref": "IRef", "mut": "IMut", "tref": "ITypedRef", "tmut": "ITypedMut",
                   "iref": "IRef", "imut": "IMut", "itref": "ITypedRef", "itmut": "ITypedMut"}[s]
def rk(s):
    p = s.split(":")
    if p == ["w"]: return "RWrap"
    if p == ["box"]: return "RBox"
    if p[0] == "lz": return "(RLazy %s)" % nat(p[1])
    raise ValueError(s)

def op(t):
    h = t[0]
    if h == "new": return "ONew %s %s" % (nat(t[1]), bk(t[2]))
    if h == "withcap": return "OWithCapacity %s %s %s" % (nat(t[1]), bk(t[2]), n(t[3]))
    if h == "dropvec": return "ODropVec %s" % nat(t[1])
    if h == "push": return "OPush %s %s %s" % (api(t[1]), nat(t[2]), src(t[3]))
    if h == "insert": return "OInsert %s %s %s %s" % (api(t[1]), nat(t[2]), n(t[3]), src(t[4]))
    if h == "pop": return "OPop %s %s %s" % (api(t[1]), nat(t[2]), sink(t[3]))
    if h == "remove": return "ORemove %s %s %s %s" % (api(t[1]), nat(t[2]), n(t[3]), sink(t[4]))
    if h == "swap_remove": return "OSwapRemove %s %s %s %s" % (api(t[1]), nat(t[2]), n(t[3]), sink(t[4]))
    if h == "clear": return "OClear %s %s" % (api(t[1]), nat(t[2]))
    if h == "get": return "OGet %s %s %s" % (api(t[1]), nat(t[2]), n(t[3]))
    if h == "at": return "OAt %s %s %s" % (api(t[1]), nat(t[2]), n(t[3]))
    if h == "iter": return "OIter %s %s %s" % (ik(t[1]), nat(t[2]), pat_ro(t[3]))
    if h == "drain": return "ODrain %s %s %s %s %s %s" % (api(t[1]), nat(t[2]), bound(t[3]), bound(t[4]), pat(t[5]), fin(t[6]))
    if h == "splice":
        return "OSplice %s %s %s %s %s %s %s %s %s %s" % (api(t[1]), nat(t[2]), bound(t[3]), bound(t[4]), pat(t[5]), fin(t[6]),
                                                         rk(t[7]), n(t[8]), "None" if t[9] == "-" else "(Some %s)" % n(t[9]), n(t[10].split("/")[0]))
    if h == "clone": return "OClone %s %s" % (nat(t[1]), nat(t[2]))
    if h == "clone_empty": return "OCloneEmpty %s %s" % (nat(t[1]), nat(t[2]))
    if h == "clone_empty_in": return "OCloneEmptyIn %s %s %s" % (nat(t[1]), nat(t[2]), bk(t[3]))
    if h == "clone_in": return "OCloneIn %s %s %s" % (nat(t[1]), bk(t[2]), n(t[3]))
    if h in ("treserve", "treserve_exact", "tshrink_to_fit", "tshrink_to"):   # the typed view forwards to the same raw operation
        h = h[1:]
    if h == "reserve": return "OReserve %s %s" % (nat(t[1]), n(t[2]))
    if h == "reserve_exact": return "OReserveExact %s %s" % (nat(t[1]), n(t[2]))
    if h == "shrink_to_fit": return "OShrinkToFit %s" % nat(t[1])
    if h == "shrink_to": return "OShrinkTo %s %s" % (nat(t[1]), n(t[2]))
    if h == "views": return "OViews %s" % nat(t[1])
    if h == "spare_write": return "OSpareWrite %s %s %s" % (api(t[1]), nat(t[2]), n(t[3]))
    if h == "set_len": return "OSetLen %s %s" % (nat(t[1]), n(t[2]))
    if h == "iter_clone": return "OIterClone %s %s %s %s" % (ik(t[1]), nat(t[2]), pat_ro(t[3]), pat_ro(t[4]))
    if h == "probe_types": return "OProbeTypes %s %s" % (nat(t[1]), n(t[2]))
    if h == "down_wrong": return "ODownWrong %s %s %s" % (nat(t[1]), tkind(t[2]), n(t[3]))
    if h == "swap_wrong": return "OSwapWrong %s %s" % (nat(t[1]), n(t[2]))
    if h == "write": return "OWrite %s %s %s" % (n(t[1]), nat(t[2]), n(t[3]))
    if h == "read": return "ORead %s %s %s" % (n(t[1]), nat(t[2]), n(t[3]))
    if h == "swap": return "OSwap %s %s %s %s %s" % (n(t[1]), nat(t[2]), n(t[3]), nat(t[4]), n(t[5]))
    if h == "parts": return "OParts %s %s" % (nat(t[1]), n(t[2]))
    if h == "placement": return "OPlacement"
    if h == "iter_nth": return "OIterNth %s %s %s" % (ik(t[1]), nat(t[2]), pat_nth(t[3]))
    if h == "lazy_down": return "OLazyDown %s %s %s" % (n(t[1]), nat(t[2]), n(t[3]))
    if h == "cursor_max": return "OCursorMax %s %s" % (api(t[1]), pat_ro(t[2]))
    raise ValueError(" ".join(t))

def case_term(line):
    """case line -> (id, 'trace_case <cfg> <steps>')"""
    parts = [p.strip() for p in line.split(";")]
    head = parts[0].split()
    cid = head[0]
    kv = dict(t.split("=", 1) for t in head[1:])
    cfg = "{| c_sz := %s; c_al := %s; c_dg := %s; c_cl := %s; c_trap := %s; c_ty := 1 |}" % (
        n(kv["sz"]), n(kv["al"]), b(kv["dg"] == "1"), b(kv["cl"] == "1"), b(kv["trap"] == "1"))
    steps = []
    for st in parts[1:]:
        toks = st.split()
        fuse = "None"
        if toks and toks[0].startswith("fuse="):
            fuse = "(Some %s)" % n(toks[0][5:])
            toks = toks[1:]
        steps.append("(%s, %s)" % (fuse, op(toks)))
    return cid, "trace_case %s %s" % (cfg, lst(steps))

def crosscheck(lines, model_traces, workdir, tag, spec_traces=None):
    """Evaluate the given case lines inside Coq and compare with the extracted model's trace lines - and, when
    [spec_traces] is given, the list specification's predictions (Track.track_case) with the extracted ones.
    -> (number of cases compared, list of (case id, step, coq line, extracted line))"""
    os.makedirs(workdir, exist_ok=True)
    vf = os.path.join(workdir, "cc_%s.v" % tag)
    ids = []
    with open(vf, "w") as f:
        f.write("From Coq Require Import String List NArith.\nImport ListNotations.\nFrom AV.Model Require Import Base Bytes Vec Ops Interp Trace.\n"
                + ("From AV.Proofs Require Import Track.\n" if spec_traces is not None else "") +
                "Open Scope N_scope.\nSet Printing Width 10000000.\nSet Printing Depth 10000000.\n")
        for line in lines:
            cid, term = case_term(line)
            ids.append(cid)
            f.write("Eval vm_compute in (%s).\n" % term)
            if spec_traces is not None:
                f.write("Eval vm_compute in (%s).\n" % term.replace("trace_case", "track_case", 1))
    rc, out = core.sh("timeout 1200 coqc -noglob -Q %s/AV AV %s" % (core.COQ, vf), cwd=workdir)
    if rc != 0:
        raise core.ToolBroken("in-Coq re-evaluation of the case sample failed:\n" + out[-2000:])
    blocks = re.findall(r"= \[(.*?)\]\s*\n\s*: list string", out, re.S)
    per = 2 if spec_traces is not None else 1
    if len(blocks) != per * len(ids):
        raise core.ToolBroken("in-Coq re-evaluation: %d results for %d cases" % (len(blocks), len(ids)))
    bad = []
    if spec_traces is not None:
        for cid, blk in zip(ids, blocks[1::2]):
            coq_lines = re.findall(r'"((?:[^"]|"")*)"', blk)
            ext = [("-" if x is None else x["_raw"]) for x in spec_traces.get(cid, [])]
            for i in range(max(len(coq_lines), len(ext))):
                a = coq_lines[i] if i < len(coq_lines) else "<missing>"
                e = ext[i] if i < len(ext) else "<missing>"
                if a != e:
                    bad.append((cid, i, "spec: " + a, "spec: " + e))
                    break
        blocks = blocks[0::2]
    for cid, blk in zip(ids, blocks):
        coq_lines = re.findall(r'"((?:[^"]|"")*)"', blk)
        ext = [l["_raw"].split(" ", 2)[2] for l in model_traces.get(cid, []) if "_raw" in l and l.get("_step") != "end"]
        for i in range(max(len(coq_lines), len(ext))):
            a = coq_lines[i] if i < len(coq_lines) else "<missing>"
            e = ext[i] if i < len(ext) else "<missing>"
            if a != e:
                bad.append((cid, i, a, e))
                break
    return len(ids), bad
