"""C15: translator (rustc verdict table -> AV/Gen/C15Table.v), rule mirror (to name the
failing cell when the proof obligation breaks), compile-rejection probes."""
import json, os, re, shutil, subprocess, sys, time
from . import core

PROBE = os.path.join(core.ROOT, "probes", "c15")
REJECT = os.path.join(core.ROOT, "probes", "c15_reject")

TRS = {"n": (0, 0, 0), "s": (0, 1, 0), "y": (0, 0, 1), "sy": (0, 1, 1), "c": (1, 0, 0), "cs": (1, 1, 0), "cy": (1, 0, 1), "csy": (1, 1, 1)}
MARK = {"b": (1, 1), "s": (1, 0), "y": (0, 1), "x": (0, 0)}
KINDS = {"AnyVec": "KAnyVec", "Element": "KElement", "ElementRef": "KElementRef", "ElementMut": "KElementMut",
         "IterRef": "KIterRef", "IterMut": "KIterMut", "Pop": "KPop", "Remove": "KRemove", "SwapRemove": "KSwapRemove",
         "Drain": "KDrain", "Splice": "KSplice", "LazyCloneElement": "KLazyCloneElement", "LazyClonePop": "KLazyClonePop",
         "LazyCloneLazy": "KLazyCloneLazy", "AnyVecRef": "KAnyVecRef", "AnyVecMut": "KAnyVecMut", "AnyVecTyped": "KAnyVecTyped",
         "TypedDrain": "KTypedDrain", "TypedSplice": "KTypedSplice"}
SHARED = {"ElementRef", "IterRef", "LazyCloneElement", "LazyClonePop", "LazyCloneLazy", "AnyVecRef"}

def b(x): return "true" if x else "false"
def caps_term(c): return "{| c_send := %s; c_sync := %s |}" % (b(c[0]), b(c[1]))
def tr_term(t): return "{| t_clone := %s; t_send := %s; t_sync := %s |}" % tuple(b(x) for x in TRS[t])
def back_caps(m):
    if m.startswith("u"):
        return MARK[m[1]], MARK[m[2]]
    return (1, 1), (1, 1)
def back_term(m):
    if m.startswith("u"):
        return "(BkUser %s %s)" % (caps_term(MARK[m[1]]), caps_term(MARK[m[2]]))
    return {"heap": "BkHeap", "stack": "BkStack", "stackn": "BkStackN", "empty": "BkEmpty"}[m]

def vec_can(tr, m, which):   # which: 1 = send, 2 = sync
    bc, mc = back_caps(m)
    return bool(TRS[tr][which] and bc[which - 1] and mc[which - 1])
def tvec_can(e, m, which):
    bc, mc = back_caps(m)
    return bool(MARK[e][which - 1] and bc[which - 1] and mc[which - 1])

def rule(key, v):
    """python mirror of C15Spec.rule; returns (ok, explanation)"""
    kind, tr, m, t, trait = key.split("|")
    v = bool(v)
    if kind in KINDS and trait in ("Send", "Sync") and tr != "-":
        which = 1 if trait == "Send" else 2
        if kind == "AnyVec":
            exp = vec_can(tr, m, which)
            return v == exp, "a vector is %s exactly when its constraint set and backend are (expected %s)" % (trait, exp)
        if kind in SHARED:
            return (not v) or vec_can(tr, m, 2), "a shared view may be %s only when &vector could be shared (vector Sync)" % trait
        return (not v) or vec_can(tr, m, which), "an exclusive handle may be %s only when the vector is %s" % (trait, trait)
    if kind in KINDS and tr == "-":
        which = 1 if trait == "Send" else 2
        if kind in SHARED:
            return (not v) or tvec_can(t, m, 2), "a shared typed view may be %s only when T and the backend are Sync" % trait
        return (not v) or tvec_can(t, m, which), "an exclusive typed view may be %s only when T and the backend are %s" % (trait, trait)
    if kind == "Satisfy":
        cl, se, sy = TRS[tr]
        e = MARK[t[0]]
        has_clone = not t.endswith("n")
        exp = (not cl or has_clone) and (not se or e[0]) and (not sy or e[1])
        return v == bool(exp), "T: SatisfyTraits<Traits> exactly when T has every declared constraint (expected %s)" % bool(exp)
    if kind == "AnyVec" and trait == "Clone":
        return v == bool(TRS[tr][0]), "clone() exists exactly with Cloneable"
    if kind == "Backend" and trait in ("MemResizable", "MemBuilderSizeable"):
        return v == (m == "heap"), "capacity methods exist exactly for resizable backends"
    # sanity cells of the probe program itself
    if kind == "Backend":
        bc, mc = back_caps(m)
        exp = {"BuilderSend": bc[0], "BuilderSync": bc[1], "MemSend": mc[0], "MemSync": mc[1]}[trait]
        return v == bool(exp), "probe sanity: backend marker"
    if kind == "Elem":
        e = MARK[t[0]]
        exp = {"Send": e[0], "Sync": e[1], "Clone": not t.endswith("n")}[trait]
        return v == bool(exp), "probe sanity: element class marker"
    return True, "?"

def cell_term(key):
    kind, tr, m, t, trait = key.split("|")
    auto = {"Send": "ASend", "Sync": "ASync"}.get(trait)
    if kind in KINDS and auto and tr != "-":
        return "CErased %s %s %s %s" % (KINDS[kind], tr_term(tr), back_term(m), auto)
    if kind in KINDS and auto and tr == "-":
        return "CTyped %s %s %s %s" % (KINDS[kind], back_term(m), caps_term(MARK[t]), auto)
    if kind == "Satisfy":
        return "CSatisfy %s {| e_caps := %s; e_clone := %s |}" % (tr_term(tr), caps_term(MARK[t[0]]), b(not t.endswith("n")))
    if kind == "AnyVec" and trait == "Clone":
        return "CVecClone %s %s" % (tr_term(tr), back_term(m))
    if kind == "Backend" and trait == "MemResizable":
        return "CResizable %s" % back_term(m)
    if kind == "Backend" and trait == "MemBuilderSizeable":
        return "CSizeable %s" % back_term(m)
    return None

def regenerate():
    """-> (table dict key->0/1, wall).  Raises BuildBroken when the probe program no longer compiles."""
    rc, out = core.sh([sys.executable, os.path.join(PROBE, "gen.py")], cwd=PROBE)
    if rc != 0:
        raise core.ToolBroken("c15 gen failed: " + out)
    lock = os.path.join(PROBE, "Cargo.lock")
    if not os.path.exists(lock):
        core.sh("cargo generate-lockfile --offline", cwd=PROBE)
    rc, out = core.sh("timeout 1800 cargo build --offline 2>&1", cwd=PROBE)
    if rc != 0:
        raise core.BuildBroken("the C15 probe program (impls! over every public type) does not compile against /repo", out[-5000:])
    rc, out = core.sh(os.path.join(PROBE, "target", "debug", "c15probe"), cwd=PROBE)
    if rc != 0:
        raise core.BuildBroken("the C15 probe program failed at run time", out[-3000:])
    table = {}
    for line in out.splitlines():
        key, _, v = line.rpartition("|")
        table[key] = int(v)
    return table

def write_table(table):
    d = os.path.join(core.COQ, "AV", "Gen")
    os.makedirs(d, exist_ok=True)
    lines = ["(* GENERATED on every run by avcheck/c15.py from rustc's verdicts (probes/c15). Do not edit. *)",
             "From Coq Require Import List Bool.", "Import ListNotations.", "From AV.Static Require Import C15Spec.",
             "Definition c15_table : list (cell * bool) := ["]
    ents = []
    for key in sorted(table):
        t = cell_term(key)
        if t is not None:
            ents.append("  (%s, %s)" % (t, b(table[key])))
    lines.append(";\n".join(ents))
    lines.append("].")
    src = "\n".join(lines) + "\n"
    p = os.path.join(d, "C15Table.v")
    if not os.path.exists(p) or open(p).read() != src:
        open(p, "w").write(src)
    return len(ents)

# --------------------------------------------------------------------------------------
# compile-time rejections: (name, must_compile, body)
# --------------------------------------------------------------------------------------
HEAD = """#![allow(unused)]
use any_vec::AnyVec;
use any_vec::any_value::AnyValueWrapper;
use any_vec::mem::{Heap, Stack, StackN, Empty};
use any_vec::traits::*;
use std::rc::Rc;
use std::cell::Cell;
struct NoClone(u32);
"""
def reject_programs():
    P = []
    def add(name, ok, body):
        P.append((name, ok, HEAD + "fn main() {\n" + body + "\n}\n"))
    ctors = [("new", "AnyVec::new::<{T}>()", "AnyVec<{TR}>"), ("new_in", "AnyVec::new_in::<{T}>(Heap)", "AnyVec<{TR}, Heap>"),
             ("with_capacity", "AnyVec::with_capacity::<{T}>(4)", "AnyVec<{TR}>"),
             ("with_capacity_in", "AnyVec::with_capacity_in::<{T}>(4, Heap)", "AnyVec<{TR}, Heap>")]
    combos = [("send_rc", "dyn Send", "Rc<u32>", False), ("sync_cell", "dyn Sync", "Cell<u32>", False),
              ("clone_noclone", "dyn Cloneable", "NoClone", False), ("cs_rc", "dyn Cloneable + Send", "Rc<u32>", False),
              ("sendsync_cell", "dyn Send + Sync", "Cell<u32>", False), ("send_cell", "dyn Send", "Cell<u32>", True),
              ("none_rc", "dyn None", "Rc<u32>", True), ("csy_string", "dyn Cloneable + Send + Sync", "String", True),
              ("sync_noclone", "dyn Sync", "NoClone", True)]
    for cn, expr, ty in ctors:
        for name, tr, t, ok in combos:
            add("ctor_%s_%s" % (cn, name), ok, "    let _v: %s = %s;" % (ty.format(TR=tr), expr.format(T=t)))
    for tr, ok in [("dyn None", False), ("dyn Send", False), ("dyn Send + Sync", False), ("dyn Cloneable", True), ("dyn Cloneable + Sync", True)]:
        add("clone_%s" % re.sub(r"\W+", "_", tr), ok, "    let v: AnyVec<%s> = AnyVec::new::<u32>();\n    let _c = v.clone();" % tr)
        add("element_clone_%s" % re.sub(r"\W+", "_", tr), ok, "    let v: AnyVec<%s> = AnyVec::new::<u32>();\n    let _c = v.element_clone();" % tr)
        add("lazy_clone_%s" % re.sub(r"\W+", "_", tr), ok,
            "    use any_vec::any_value::AnyValueCloneable;\n    let mut v: AnyVec<%s> = AnyVec::new::<u32>();\n    v.push(AnyValueWrapper::new(1u32));\n    let e = v.at(0);\n    let _l = e.lazy_clone();" % tr)
        # every handle kind that can be lazily cloned: only with Cloneable
        pre = "    use any_vec::any_value::AnyValueCloneable;\n    let mut v: AnyVec<%s> = AnyVec::new::<u32>();\n    v.push(AnyValueWrapper::new(1u32));\n" % tr
        for hname, hexpr in [("at_mut", "v.at_mut(0)"), ("get", "v.get(0).unwrap()"), ("iter_item", "v.iter().next().unwrap()"),
                             ("iter_mut_item", "v.iter_mut().next().unwrap()"), ("pop", "v.pop().unwrap()"), ("remove", "v.remove(0)"),
                             ("swap_remove", "v.swap_remove(0)"), ("drain_item", "v.drain(..).next().unwrap()"),
                             ("splice_item", "v.splice(.., Vec::<AnyValueWrapper<u32>>::new()).next().unwrap()")]:
            add("lazy_clone_%s_%s" % (hname, re.sub(r"\W+", "_", tr)), ok, pre + "    let h = %s;\n    let _l = h.lazy_clone();" % hexpr)
    for be, bty, ok in [("heap", "Heap", True), ("stack", "Stack<64>", False), ("stackn", "StackN<4, 64>", False), ("empty", "Empty", False)]:
        for meth in ["reserve(4)", "reserve_exact(4)", "shrink_to_fit()", "shrink_to(2)"]:
            mname = meth.split("(")[0]
            add("%s_%s" % (mname, be), ok, "    let mut v: AnyVec<dyn None, %s> = AnyVec::new::<u32>();\n    v.%s;" % (bty, meth))
            add("typed_%s_%s" % (mname, be), ok, "    let mut v: AnyVec<dyn None, %s> = AnyVec::new::<u32>();\n    let mut t = v.downcast_mut::<u32>().unwrap();\n    t.%s;" % (bty, meth))
        add("with_capacity_%s" % be, ok, "    let _v: AnyVec<dyn None, %s> = AnyVec::with_capacity::<u32>(4);" % bty)
    return P

def run_rejections():
    """-> list of (name, must_compile, compiled?, first error code)"""
    progs = reject_programs()
    bindir = os.path.join(REJECT, "src", "bin")
    if os.path.exists(bindir):
        shutil.rmtree(bindir)
    os.makedirs(bindir)
    os.makedirs(os.path.join(REJECT, ".cargo"), exist_ok=True)
    open(os.path.join(REJECT, ".cargo", "config.toml"), "w").write("[net]\noffline = true\n")
    open(os.path.join(REJECT, "Cargo.toml"), "w").write(
        '[package]\nname = "c15reject"\nversion = "0.1.0"\nedition = "2021"\n\n[dependencies]\nany_vec = { path = "/repo" }\n\n'
        '[profile.dev]\nopt-level = 0\ndebug = false\nincremental = false\n\n[workspace]\n')
    for name, ok, src in progs:
        open(os.path.join(bindir, name + ".rs"), "w").write(src)
    rc, out = core.sh("timeout 1800 cargo check --offline --bins --keep-going --message-format=json 2>/dev/null", cwd=REJECT)
    errs = {}
    okset = set()
    libfail = False
    for line in out.splitlines():
        try:
            m = json.loads(line)
        except ValueError:
            continue
        if m.get("reason") == "compiler-message" and m["message"].get("level") == "error":
            tgt = m.get("target", {}).get("name")
            code = (m["message"].get("code") or {}).get("code")
            if m.get("target", {}).get("kind") == ["bin"]:
                if code:
                    errs.setdefault(tgt, code)
                else:
                    errs.setdefault(tgt, "error")
            else:
                libfail = True
        if m.get("reason") == "compiler-artifact" and m.get("target", {}).get("kind") == ["bin"]:
            okset.add(m["target"]["name"])
    if libfail:
        raise core.BuildBroken("any_vec itself does not compile for the rejection probes", out[-3000:])
    res = []
    for name, ok, src in progs:
        compiled = name in okset and name not in errs
        res.append((name, ok, compiled, errs.get(name, "")))
    return res
