"""Per-property configuration, verdict logic, evidence."""
import json, os, random, re, sys, time, hashlib, collections

from . import core, gen

ROOT = core.ROOT

def ev_filter(kinds):
    def f(line):
        ev = line.get("ev", "")
        return ",".join(e for e in ev.split(",") if e and e[0] in kinds)
    return f

def key_plain(k):
    return lambda line: line.get(k, "")

PROJ = {
    "out": key_plain("out"), "ret": key_plain("ret"), "len": key_plain("len"),
    "cap": key_plain("cap"), "snap": key_plain("snap"),
    "ev_user": ev_filter("DCN"), "ev_alloc": ev_filter("ARF"), "ev_backend": ev_filter("BXZM"),
    "ev_clone": ev_filter("C"), "ev_drop": ev_filter("D"), "raw": key_plain("raw"),
}

def be_class(be):
    return be.split(":")[0]

def is_stack(cfg): return be_class(cfg["be"]) in ("stack", "stackn", "empty")
def is_heap(cfg): return cfg["be"] == "heap"
def is_resizable(cfg): return be_class(cfg["be"]) in ("heap", "reloc")
def any_cfg(cfg): return True

# families -> (generator name, leak_free?)  leak_free: at the end of the case nothing may be alive
PROPS = {
    "C01": dict(families=["elem", "copy", "iter_nth", "userlazy", "handleswap", "random"], keys=["out", "ret", "len", "snap"], cfgs=any_cfg,
                release=False, leak_free=True),
    "C02": dict(families=["range", "range_nth", "random"], keys=["out", "ret", "len", "snap"], cfgs=any_cfg,
                release=True, leak_free=True),
    "C03": dict(families=["elem", "range", "range_nth", "clone", "lazyfuse", "dropfuse", "liar", "random"], keys=["ev_user", "snap"], cfgs=any_cfg,
                release=False, leak_free=True),
    "C04": dict(families=["types"], keys=["out", "ret", "len", "snap", "ev_user"], cfgs=any_cfg, release=False, leak_free=False),
    "C13": dict(families=["handles", "elem", "iter_nth", "placement"], keys=["out", "ret", "len", "snap", "ev_user"], cfgs=any_cfg, release=False, leak_free=True),
    "C17": dict(families=["parts"], keys=["out", "ret", "len", "cap", "snap", "ev_user", "ev_alloc"],
                cfgs=lambda c: c["be"] in ("heap", "empty"), release=False, leak_free=True),
    "C05": dict(families=["elem", "range", "clone", "clonefuse", "dropfuse", "capacity", "random"], keys=["out", "ev_backend", "snap", "raw"],
                cfgs=lambda c: be_class(c["be"]) in ("reloc", "heap"), release=False, leak_free=True),
    "C06": dict(families=["fuse", "liar"], keys=["out", "ret", "len", "snap", "ev_user"],
                cfgs=lambda c: (be_class(c["be"]) in ("heap", "reloc") and c["sz"] in (0, 3, 8, 24, 160)) or (c["be"] in ("stack:72", "stackn:4:96", "stack:0") and c["sz"] == 24),
                release=False, leak_free=False),
    "C07": dict(families=["forget"], keys=["out", "ret", "len", "snap", "ev_user"], cfgs=any_cfg,
                release=False, leak_free=False),
    "C09": dict(families=["lazy", "userlazy"], keys=["out", "ret", "len", "snap", "ev_user"], cfgs=any_cfg,
                release=False, leak_free=True),
    "C08": dict(families=["clone", "clonefuse", "clone_in"], keys=["out", "ret", "len", "cap", "snap", "ev_clone", "ev_drop", "ev_backend"], cfgs=any_cfg,
                release=False, leak_free=True),
    "C10": dict(families=["capacity", "liar", "clone", "random"], keys=["out", "len", "cap", "snap"], cfgs=is_resizable,
                release=True, leak_free=True),
    "C11": dict(families=["elem", "range", "clone", "views", "clone_in", "stackcap"], keys=["out", "ret", "len", "cap", "snap", "ev_alloc"],
                cfgs=is_stack, release=False, leak_free=True),
    "C12": dict(families=["views", "placement"], keys=["out", "ret", "len", "snap"], cfgs=any_cfg, release=False, leak_free=True),
    "C14": dict(families=["iter", "iter_clone", "iter_nth", "range_nth", "cursor_max"], keys=["out", "ret"], cfgs=any_cfg, release=False, leak_free=True),
    "C18": dict(families=["capacity", "elem", "range", "clone", "parts", "random", "dropfuse", "clonefuse", "clone_in"], keys=["out", "cap", "ev_alloc"],
                cfgs=is_heap, release=True, leak_free=True),
    # the harness is linked against any_vec built with default features disabled; the same cases also run
    # on the default build and the two implementations' full trace lines must be identical
    "C19": dict(families=["elem", "range", "clone", "views"], keys=["out", "ret", "len", "cap", "snap", "ev_user", "ev_alloc"],
                cfgs=is_stack, release=False, leak_free=True, harness="noalloc", static="c19"),
}

def parse_cfg_key(key, trap=1):
    sz, al, dg, tr, be = key.split("/")
    return dict(sz=int(sz), al=int(al), dg=int(dg), tr=tr, be=be, trap=trap)

def op_word(step):
    t = step.split()
    if t and t[0].startswith("fuse="):
        t = t[1:]
    return t[0] if t else "?"

def load_known():
    p = os.path.join(ROOT, "known_findings.json")
    if not os.path.exists(p):
        return []
    return json.load(open(p)).get("findings", [])

def sig_matches(sig, failure_sig):
    for k, v in sig.items():
        fv = failure_sig.get(k)
        if isinstance(v, list):
            if fv not in v:
                return False
        elif fv != v:
            return False
    return True

def failure_signature(f):
    cfg = f["cfg"]
    step = f["steps"][f["step"]] if f["step"] < len(f["steps"]) else "end"
    toks = step.split()
    if toks and toks[0].startswith("fuse="):
        toks = toks[1:]
    return dict(op=toks[0] if toks else "end", api=(toks[1] if len(toks) > 1 and toks[1] in ("e", "t") else "-"),
                key=f["key"], be=be_class(cfg["be"]), sz=cfg["sz"], al=cfg["al"], dg=cfg["dg"],
                profile="debug" if cfg["trap"] else "release", family=f["family"])

def compare_case(pid, spec, cid, cfg, steps, family, mlines, ilines):
    """-> failure dict or None.  First step at which a monitor fires or the projection differs."""
    if ilines is None or (len(ilines) == 1 and "_skipped" in ilines[0]):
        return None
    msteps = [l for l in (mlines or []) if l.get("_step") != "end"]
    isteps = [l for l in ilines if l.get("_step") != "end" and "_skipped" not in l]
    iend = [l for l in ilines if l.get("_step") == "end"]
    for i in range(max(len(msteps), len(isteps))):
        if i >= len(isteps):
            return dict(step=i, key="trace-missing", expected=msteps[i]["_raw"], observed="<implementation produced no line: process died>")
        il = isteps[i]
        if il.get("viol"):
            return dict(step=i, key="viol:" + il["viol"].split("+")[0].split("_")[0], expected="no monitor violation", observed=il["viol"])
        if i >= len(msteps):
            return dict(step=i, key="model-missing", expected="<no model line>", observed=il["_raw"])
        ml = msteps[i]
        for k in spec["keys"]:
            # the residue of the storage address that the placement probe returns is the subject of C12 (alignment,
            # known finding D7); C13 runs the probe for its byte-level coherence monitors only
            if k == "ret" and pid != "C12" and i < len(steps) and op_word(steps[i]) == "placement":
                continue
            e, o = PROJ[k](ml), PROJ[k](il)
            if e != o:
                return dict(step=i, key=k, expected=e, observed=o)
    if iend:
        e = iend[0]
        n = len(isteps)
        if e.get("viol"):
            return dict(step=n, key="viol:" + e["viol"].split("+")[0].split("_")[0], expected="no monitor violation", observed=e["viol"])
        # a panicking range operation or clone may leak (and only leak)
        may_leak = any(l.get("out") == "2" and op_word(st) in ("splice", "drain", "clone") for st, l in zip(steps, isteps))
        if spec.get("leak_free"):
            # a step with an armed fuse / lying iterator / forgotten handle may leak (and only leak)
            may_leak = may_leak or family in ("fuse", "liar", "forget", "lazyfuse", "clonefuse", "dropfuse") or any(st.startswith("fuse=") for st in steps)
            # a leaked iterator / forgotten handle leaks what it still owns (and only leaks)
            may_leak = may_leak or any("forget" in st for st in steps)
            if e.get("live", "-") not in ("-", "0") and not may_leak:
                return dict(step=n, key="leak", expected="live=0", observed="live=" + e["live"])
            if e.get("blocks", "0") != "0":
                return dict(step=n, key="storage-leak", expected="blocks=0", observed="blocks=" + e["blocks"])
            if e.get("heap", "0") != "0":
                return dict(step=n, key="heap-leak", expected="heap=0", observed="heap=" + e["heap"])
    return None

def strip_tail(v, sep):
    """per-vector lists: trailing empty slots are not significant"""
    parts = v.split(sep) if v else []
    while parts and parts[-1] == "-":
        parts.pop()
    return sep.join(parts)

def spec_vs_model(cid, sl, ml):
    """The tracked list specification (Track.spec_track) against the byte-level machine, step by step.
    AV.Proofs.Track.spec_track_sound proves they agree; a difference is a defect of extraction / driver."""
    msteps = [l for l in (ml or []) if l.get("_step") != "end"]
    n = 0
    for i, sp in enumerate(sl):
        if sp is None or i >= len(msteps):
            continue
        m = msteps[i]
        n += 1
        pairs = [("out", sp["out"], m.get("out", "")), ("ret", sp["ret"], m.get("ret", "")),
                 ("len", strip_tail(sp["len"], ","), strip_tail(m.get("len", ""), ",")),
                 ("snap", strip_tail(sp["snap"], "|"), strip_tail(m.get("snap", ""), "|")),
                 ("ev_user", sp["ev"], PROJ["ev_user"](m))]
        for k, a, b in pairs:
            if a != b:
                raise core.ToolBroken("list specification and machine model disagree on case %s step %d key %s: spec=%r model=%r "
                                      "(Track.spec_track_sound excludes this: extraction or driver defect)" % (cid, i, k, a, b))
    return n


# ======================================================================================
# property oracles on the IMPLEMENTATION's own trace
# A difference between model and implementation on a key the property does not fix exactly (capacity values,
# allocator / backend requests, raw storage) shows that the correspondence is broken, not that the property
# fails.  For these keys the check asks the property's own constraints of the implementation's trace: if they
# are violated the case is a failing input; if not, the violation is reported with no-failing-input-found.
# ======================================================================================
REPR_KEYS = ("cap", "ev_alloc", "ev_backend", "raw")
ISIZE_MAX = (1 << 63) - 1

def _nums(v):
    return [None if x in ("-", "") else int(x) for x in v.split(",")] if v else []
def _evs(l, kinds):
    return [e for e in l.get("ev", "").split(",") if e and e[0] in kinds]

def oracle_c10(cfg, steps, isteps):
    """len <= cap; reserve / reserve_exact / with_capacity / shrink promises; growth by push is geometric"""
    prev = None
    for i, (st, l) in enumerate(zip(steps, isteps)):
        t = st.split()
        if t and t[0].startswith("fuse="):
            t = t[1:]
        if t and t[0] in ("treserve", "treserve_exact", "tshrink_to_fit", "tshrink_to"):    # the same promises through the typed view
            t[0] = t[0][1:]
        lens, caps = _nums(l.get("len", "")), _nums(l.get("cap", ""))
        for a, b in zip(lens, caps):
            if a is not None and b is not None and a > b:
                return "step %d: len %d > capacity %d" % (i, a, b)
        plens, pcaps = (_nums(prev.get("len", "")), _nums(prev.get("cap", ""))) if prev else ([], [])
        def at(xs, v): return xs[v] if v < len(xs) else None
        if t and t[0] in ("reserve", "reserve_exact") and l.get("out") == "0":
            v, n = int(t[1]), int(t[2])
            ln, cp, pcp = at(lens, v), at(caps, v), at(pcaps, v)
            if None not in (ln, cp):
                if cp < ln + n:
                    return "step %d: %s(%d) returned with capacity %d < len %d + %d" % (i, t[0], n, cp, ln, n)
                if pcp is not None and pcp >= ln + n and (cp != pcp or _evs(l, "ARFXZ")):
                    return "step %d: %s(%d) changed capacity %d -> %d / touched the storage although it was satisfied" % (i, t[0], n, pcp, cp)
        if t and t[0] in ("reserve", "reserve_exact") and l.get("out") == "0":
            v, n = int(t[1]), int(t[2])
            ln = at(plens, v)
            if ln is not None and ln + n > gen.USIZE_MAX:
                return "step %d: %s(%d) returned although len + n is not representable" % (i, t[0], n)
        if t and t[0] in ("shrink_to_fit", "shrink_to") and l.get("out") == "0":
            v = int(t[1]); m = int(t[2]) if t[0] == "shrink_to" else 0
            ln, cp, pcp = at(lens, v), at(caps, v), at(pcaps, v)
            if None not in (ln, cp, pcp):
                bound = max(ln, m)
                if cp > pcp:
                    return "step %d: %s increased the capacity %d -> %d" % (i, t[0], pcp, cp)
                if cp < min(pcp, bound):
                    return "step %d: %s went below %d (capacity %d -> %d)" % (i, t[0], min(pcp, bound), pcp, cp)
                if cfg["be"] == "heap" and cp != min(pcp, bound):
                    return "step %d: %s on the heap backend ended at %d, not at min(%d, %d)" % (i, t[0], cp, pcp, bound)
        if t and t[0] == "withcap" and l.get("out") == "0":
            v, n = int(t[1]), int(t[3])
            cp = at(caps, v)
            if cp is not None and cp < n:
                return "step %d: with_capacity(%d) gave capacity %d" % (i, n, cp)
        if t and t[0] in ("push", "insert") and l.get("out") == "0":
            v = int(t[2])
            cp, pcp = at(caps, v), at(pcaps, v)
            if cfg["be"] == "heap" and None not in (cp, pcp) and cp != pcp and pcp >= 4 and cp * 4 < pcp * 5:
                return "step %d: growth by push from %d to %d is not geometric" % (i, pcp, cp)
        prev = l
    return ""

def oracle_c11(cfg, steps, isteps):
    """stack backends: the stated capacity, never the heap"""
    cap = gen.fixed_cap(cfg["be"], cfg["sz"])
    for i, l in enumerate(isteps):
        t = steps[i].split() if i < len(steps) else []
        if t and t[0].startswith("fuse="):
            t = t[1:]
        # the one step that may reach the allocator: a clone built on the Heap backend on request (clone_empty_in(Heap))
        heap_target = len(t) >= 3 and t[0] == "clone_in" and t[2] == "heap"
        if _evs(l, "ARF") and not heap_target:
            return "step %d: heap traffic %s on a stack backend" % (i, ",".join(_evs(l, "ARF")))
        for cp in _nums(l.get("cap", "")):
            if cp is not None and cap is not None and cp != cap:
                return "step %d: capacity %d, stated capacity %d" % (i, cp, cap)
    return ""

def oracle_c18(cfg, steps, isteps):
    """heap: at most one allocation per vector, large enough and aligned, none while capacity x size is 0, valid layouts"""
    live = []      # sizes of live allocations
    sz, al = cfg["sz"], cfg["al"]
    for i, l in enumerate(isteps):
        for e in _evs(l, "ARF"):
            try:
                if e[0] == "A":
                    a, b = e[1:].split(":"); a, b = int(a), int(b)
                    if a > ISIZE_MAX or a == 0: return "step %d: allocation request of %d bytes" % (i, a)
                    if b != al: return "step %d: allocation aligned to %d, element alignment %d" % (i, b, al)
                    live.append(a)
                elif e[0] == "R":
                    old, rest = e[1:].split(":"); b, new = rest.split(">"); old, b, new = int(old), int(b), int(new)
                    if new > ISIZE_MAX or new == 0: return "step %d: reallocation request to %d bytes" % (i, new)
                    if old not in live: return "step %d: reallocation of a block of %d bytes that is not live" % (i, old)
                    live.remove(old); live.append(new)
                else:
                    a, b = e[1:].split(":"); a = int(a)
                    if a not in live: return "step %d: release of a block of %d bytes that is not live" % (i, a)
                    live.remove(a)
            except ValueError:
                return "step %d: unreadable allocator event %r" % (i, e)
        caps = [c for c in _nums(l.get("cap", "")) if c is not None]
        if l.get("out") in ("0", "1"):
            need = sorted([c * sz for c in caps if c * sz > 0])
            if len(live) > len(need):
                return "step %d: %d live allocations for %d vectors that need storage" % (i, len(live), len(need))
            if len(live) == len(need) and any(a < b for a, b in zip(sorted(live), need)):
                return "step %d: allocations %s too small for capacities x size %s" % (i, sorted(live), need)
    return ""

ORACLES = {"C10": oracle_c10, "C11": oracle_c11, "C18": oracle_c18}

def nontrivial_steps(isteps):
    """count steps that changed state, returned a value or produced an event"""
    n = 0
    prev = None
    for l in isteps:
        cur = (l.get("len"), l.get("cap"), l.get("snap"))
        if l.get("ret") or l.get("ev") or cur != prev or l.get("out") != "0":
            n += 1
        prev = cur
    return n

def write_replay(pid, f):
    d = os.path.join(ROOT, "replays")
    os.makedirs(d, exist_ok=True)
    steps = f["steps"][: f["step"] + 1]
    line = "%s %s ; %s" % ("replay", gen.cfg_head(f["cfg"]), " ; ".join(steps))
    h = hashlib.sha1(line.encode()).hexdigest()[:10]
    base = os.path.join(d, "%s-%s" % (pid, h))
    open(base + ".case", "w").write(line + "\n")
    json.dump(dict(property=pid, case=line, failing_step=f["step"], step_text=f["steps"][f["step"]] if f["step"] < len(f["steps"]) else "end-of-case",
                   diverging_key=f["key"], expected_by_model=f["expected"], observed_on_implementation=f["observed"],
                   family=f["family"], signature=failure_signature(f),
                   predicted_by_list_specification=f.get("spec_predicts", "<step outside the fragment of the history theorems>"),
                   how_to_replay="./check %s --replay %s" % (pid, base + ".case")),
              open(base + ".json", "w"), indent=1)
    return base + ".case"

def collect_cases(pid, spec, routing, tier, seed):
    cases = []
    dist = collections.Counter()
    cfgs = sorted(set(routing.keys()))
    n = 0
    for fam in spec["families"]:
        for key in cfgs:
            for trap in ([1, 0] if spec.get("release") else [1]):
                cfg = parse_cfg_key(key, trap)
                if not spec["cfgs"](cfg):
                    continue
                if not gen.build_ok(cfg["be"], cfg["sz"]):
                    continue
                # inline stack buffers are only byte-aligned (known finding D7): typed access to an
                # over-aligned element type there would abort the harness; only the placement probe runs
                if is_stack(cfg) and cfg["al"] > 8 and fam not in ("placement", "stackcap"):
                    continue
                if trap == 0 and fam not in ("range", "capacity"):
                    continue
                rng = random.Random("%d/%s/%s/%d" % (seed, fam, key, trap))
                scripts = gen.FAMILIES[fam](cfg, tier, rng)
                if trap == 0 and fam == "range":
                    # release profile: only the arithmetic-sensitive part (invalid / extreme ranges)
                    scripts = [s for s in scripts if any(str(gen.USIZE_MAX) in st or " - drop" in st for st in s)]
                for s in scripts:
                    cases.append(("%s%d" % (fam[0], n), cfg, s, fam))
                    n += 1
                    dist[fam] += 1
    return cases, dist

def theorem_status(pid):
    """-> (list of (name, closed?, axioms)) from coqc output of Props/<pid>.v"""
    out = core.props_report(pid)
    if out is None:
        return None, ""
    src = open(os.path.join(core.COQ, "AV", "Props", pid + ".v")).read()
    names = re.findall(r"^(?:Theorem|Lemma|Corollary)\s+(\w+)", src, re.M)
    asked = re.findall(r"^Print Assumptions\s+(\w+)\.", src, re.M)
    blocks = re.split(r"\n(?=Closed under the global context|Axioms:)", "\n" + out)
    verdicts = [b for b in blocks if b.startswith("Closed under") or b.startswith("Axioms:")]
    res = []
    for i, nme in enumerate(asked):
        v = verdicts[i] if i < len(verdicts) else "missing"
        res.append((nme, v.startswith("Closed under the global context"), v.strip()[:300]))
    missing = [n for n in names if n not in asked]
    for n in missing:
        res.append((n, False, "no Print Assumptions for this theorem"))
    return res, out

def theorem_status_safe(pid, broken):
    try:
        thms, out = theorem_status(pid)
        return thms or [], out
    except core.ObligationBroken as e:
        broken.append("theorem %s_table_ok (AV/Props/%s.v) no longer checks against the regenerated table:\n%s" % (pid, pid, e.output[-800:]))
        return [], ""

def c19_static(pid):
    """regenerate AV/Gen/C19Table.v from /repo, rebuild, evaluate the rule cell by cell"""
    from . import c19
    viol, broken, cov = [], [], {}
    d = os.path.join(ROOT, "replays"); os.makedirs(d, exist_ok=True)
    try:
        rows, facts = c19.regenerate()
        builds = c19.build_probes()
        n = c19.write_table(rows, facts, builds)
        core.ensure_coq()
        bad = c19.rule(rows, facts, builds)
        seen = set()
        for what, detail in bad:
            if what in seen:
                continue
            seen.add(what)
            similar = [b[1] for b in bad if b[0] == what]
            path = os.path.join(d, "%s-%s.json" % (pid, what))
            json.dump(dict(property=pid, failing=what, items=similar[:40], detail=detail[:1500],
                           how_to_replay="./check C19 (regenerates the API table from rustdoc JSON of /repo with and without default features)"),
                      open(path, "w"), indent=1)
            viol.append(("%s: %s (%d similar)" % (what, detail[:160], len(similar)), path))
        cov.update(api_items=n, api_items_heap_related=len([r for r in rows if r["heap"]]),
                   api_items_in_noalloc_build=len([r for r in rows if r["in_noalloc"]]),
                   noalloc_build_links=facts.get("noalloc_crates"), build_facts={k: v for k, v in builds.items() if not k.endswith("output")},
                   violating_items=len(bad))
    except core.BuildBroken as e:
        broken.append("translator corr.%s.table: %s\n%s" % (pid, e.what, e.output[-1500:]))
    return viol, broken, cov

def run_check(pid, tier, seed, replay, t0):
    if pid not in PROPS and pid not in STATIC:
        print("property %s is not claimed by this framework" % pid)
        return 2
    if pid in STATIC:
        return STATIC[pid](pid, tier, seed, replay, t0)
    spec = PROPS[pid]
    os.system("rm -f '%s'/replays/%s-*" % (ROOT, pid))
    known = [k for k in load_known() if k.get("property") == pid and k.get("status") == "known"]
    violations = []      # (text, replay path)
    known_hits = []
    # ---------------- proof step
    coq_s = core.ensure_coq()
    forb = core.grep_forbidden()
    if spec.get("static"):
        thms = []           # decided after the table has been regenerated from /repo
    else:
        thms, _ = theorem_status(pid)
    thms = thms or []
    open_thms = [t for t in thms if not t[1]]
    # ---------------- correspondence step
    model_exe = core.ensure_model()
    build_failure = None
    routing, bindirs = {}, {}
    try:
        routing, bindirs = core.ensure_harness(spec.get("harness", tier), ("debug", "release") if spec.get("release") else ("debug",))
    except core.BuildBroken as e:
        build_failure = e
    failures = []
    cases = []
    dist = collections.Counter()
    stats = dict(evaluations=0, steps=0, nontrivial=0, validated=0, distinct=set(), ops=collections.Counter(),
                 outs=collections.Counter(), cfgs=collections.Counter(), spec_steps=0, spec_cases=0)
    crashed = []
    cc_count = [0]
    if build_failure is None:
        if replay:
            line = open(replay).read().strip().split("\n")[0]
            head, _, rest = line.partition(" ; ")
            toks = head.split()
            kv = dict(t.split("=", 1) for t in toks[1:])
            cfg = dict(sz=int(kv["sz"]), al=int(kv["al"]), dg=int(kv["dg"]), tr=kv["tr"], be=kv["be"], trap=int(kv["trap"]))
            cases = [("replay", cfg, rest.split(" ; "), "replay")]
        else:
            cases, dist = collect_cases(pid, spec, routing, tier, seed)
        work = os.path.join(core.CACHE, "work", pid)
        os.system("rm -rf '%s'" % work)
        from . import coqterm
        noalloc = spec.get("harness") == "noalloc"
        # sample for the in-Coq re-evaluation of the extracted model: drawn before the run, its model lines are kept
        rs = random.Random(seed * 7919 + len(cases))
        routed = [c for c in cases if core.cfg_key(c[1]) in routing]
        sample = rs.sample(routed, min(len(routed), 150 if tier == "quick" else 600))
        sample_ids = set(c[0] for c in sample)
        model_keep = {}
        spec_keep = {}
        by_id = {c[0]: c for c in cases}
        impl_keep = {} if noalloc else None      # C19 compares every raw line with the default build's
        def consume(model, impl, spectr):
            """one shard: compare its cases, keep only counters and failures"""
            for cid in list(impl.keys()) + [k for k in model.keys() if k not in impl]:
                c = by_id.get(cid)
                if c is None:
                    continue
                _, cfg, steps, fam = c
                il = impl.get(cid)
                ml = model.get(cid)
                if cid in sample_ids and ml is not None:
                    model_keep[cid] = ml
                    spec_keep[cid] = spectr.get(cid) or []
                if impl_keep is not None and il is not None:
                    impl_keep[cid] = [l.get("_raw") for l in il if "_raw" in l]
                seen_ids.add(cid)
                if il is None or (len(il) == 1 and "_skipped" in il[0]):
                    continue
                stats["evaluations"] += 1
                isteps = [l for l in il if l.get("_step") != "end"]
                stats["steps"] += len(isteps)
                stats["cfgs"][core.cfg_key(cfg)] += 1
                for s_, l in zip(steps, isteps):
                    stats["ops"][op_word(s_)] += 1
                    stats["outs"][l.get("out", "?")] += 1
                nt = nontrivial_steps(isteps)
                if nt:
                    stats["nontrivial"] += 1
                    stats["distinct"].add(hashlib.sha1((core.cfg_key(cfg) + "|" + ";".join(steps)).encode()).digest()[:8])
                sl = spectr.get(cid) or []
                tracked = spec_vs_model(cid, sl, ml)
                stats["spec_steps"] += tracked
                if sl and tracked == len(steps):
                    stats["spec_cases"] += 1
                f = compare_case(pid, spec, cid, cfg, steps, fam, ml, il)
                if f is None and pid in ORACLES:
                    # the property's own constraints, asked of the implementation's trace alone
                    try:
                        msg = ORACLES[pid](cfg, steps, isteps)
                    except Exception as ex:
                        msg = "oracle could not read the implementation's trace: %r" % (ex,)
                    stats["oracle_cases"] = stats.get("oracle_cases", 0) + 1
                    if msg:
                        f = dict(step=min(len(steps), len(isteps)) - 1 if steps else 0, key="property-oracle",
                                 expected="the property's constraints hold on the implementation's trace", observed=msg, oracle=msg)
                if f is None:
                    stats["validated"] += 1
                else:
                    f.update(cfg=cfg, steps=steps, family=fam, cid=cid)
                    if f["key"] in REPR_KEYS:
                        orc = ORACLES.get(pid)
                        try:
                            f["oracle"] = orc(cfg, steps, isteps) if orc else None
                        except Exception as ex:      # an unreadable trace is itself a failing input
                            f["oracle"] = "oracle could not read the implementation's trace: %r" % (ex,)
                    sp = sl[f["step"]] if f["step"] < len(sl) else None
                    if sp is not None:
                        # the failing step lies in the fragment of the history theorems: what std::vec::Vec's list
                        # semantics (WorldSpec.spec_step) says about it
                        f["spec_predicts"] = " ".join("%s=%s" % (k, sp[k]) for k in ("out", "ret", "len", "snap", "ev"))
                    if len(failures) < 200000:
                        failures.append(f)
                    else:
                        stats["failures_not_kept"] = stats.get("failures_not_kept", 0) + 1
        seen_ids = set()
        _, _, crashed = core.run_batches([(c[0], c[1], c[2]) for c in cases], model_exe, routing, bindirs, work, pid, consume=consume)
        ran = set(core.RAN)
        # a case handed to the harness from which no trace came back at all is never skipped silently
        for cid in ran - seen_ids:
            c = by_id[cid]
            stats["evaluations"] += 1
            failures.append(dict(step=0, key="viol:trace-missing", expected="no monitor violation", observed="trace-missing",
                                 cfg=c[1], steps=c[2], family=c[3], cid=cid))
        # the extracted model binary against the kernel's own evaluation of the same definitions
        lines = ["%s %s ; %s" % (c[0], gen.cfg_head(c[1]) , " ; ".join(c[2])) for c in sample if c[0] in model_keep]
        ncc, ccbad = coqterm.crosscheck(lines, model_keep, os.path.join(work, "coq"), pid, spec_traces=spec_keep) if lines else (0, [])
        if ccbad:
            raise core.ToolBroken("extracted model and in-Coq evaluation disagree (extraction / driver defect): " + repr(ccbad[:2]))
        cc_count[0] = ncc
    # ---------------- the same cases on the default build (C19: behaviour identical to the default build)
    extra_cov = {}
    static_broken, static_viol = [], []
    if spec.get("harness") == "noalloc" and build_failure is None:
        try:
            drouting, dbindirs = core.ensure_harness(tier, ("debug",))
            common = [c for c in cases if core.cfg_key(c[1]) in drouting]
            _, dimpl, _ = core.run_batches([(c[0], c[1], c[2]) for c in common], model_exe, drouting, dbindirs,
                                           os.path.join(core.CACHE, "work", pid + "-default"), pid + "d")
            ndiff = 0
            for cid, cfg, steps, fam in common:
                a = impl_keep.get(cid, [])
                b = [l.get("_raw") for l in dimpl.get(cid, []) if "_raw" in l]
                if a != b:
                    ndiff += 1
                    i = next((k for k in range(min(len(a), len(b))) if a[k] != b[k]), min(len(a), len(b)))
                    if not any(f.get("cid") == cid for f in failures):
                        failures.append(dict(step=min(i, len(steps) - 1), key="differs-from-default-build",
                                             expected=(b[i] if i < len(b) else "<no line>"), observed=(a[i] if i < len(a) else "<no line>"),
                                             cfg=cfg, steps=steps, family=fam, cid=cid))
            extra_cov.update(cases_also_run_on_default_build=len(common), differing_from_default_build=ndiff)
        except core.BuildBroken as e:
            static_broken.append("corr.%s.default-build: %s" % (pid, e.what))
    if spec.get("static") == "c19":
        sv, sb, sc = c19_static(pid)
        static_viol += sv; static_broken += sb; extra_cov.update(sc)
        thms, _ = theorem_status_safe(pid, static_broken)
        open_thms = [t for t in thms if not t[1]]
    # ---------------- decision
    seen_sig = {}
    repr_only = []       # model and implementation differ on a representation key, the property's constraints hold
    for f in failures:
        if f["key"] in REPR_KEYS and not f.get("oracle"):
            repr_only.append(f)
            continue
        sig = failure_signature(f)
        hit = None
        for k in known:
            if sig_matches(k.get("signature", {}), sig):
                hit = k
                break
        if hit:
            known_hits.append((hit, f))
            continue
        cls = (sig["op"], sig["key"], sig["be"], sig["family"])
        if cls in seen_sig:
            seen_sig[cls][1] += 1
            continue
        seen_sig[cls] = [f, 1]
    for cls, (f, cnt) in list(seen_sig.items())[:12]:
        path = write_replay(pid, f)
        violations.append("VIOLATION property=%s replay=%s" % (pid, path))
        print("  failing input (%d similar): cfg=%s step=%r key=%s expected=%s observed=%s" %
              (cnt, core.cfg_key(f["cfg"]), f["steps"][f["step"]] if f["step"] < len(f["steps"]) else "end", f["key"],
               f["expected"][:120], f["observed"][:120]))
        if f.get("spec_predicts"):
            print("    the list specification (WorldSpec.spec_step, proven equal to the model on this step) predicts: " + f["spec_predicts"][:200])
        if f.get("oracle"):
            print("    the property's own constraint fails on the implementation's trace: " + f["oracle"][:200])
    for text, path in static_viol:
        print("  failing input: " + text)
        violations.append("VIOLATION property=%s replay=%s" % (pid, path))
    broken = list(static_broken)
    chk = None
    if tier == "thorough" and thms:
        ok, chk = core.coqchk(pid)
        if not ok:
            broken.append("coqchk does not accept AV.Props.%s with an empty context: %s" % (pid, chk))
        extra_cov["coqchk"] = chk
    if forb:
        broken.append("forbidden words in the Coq development: " + "; ".join(forb[:5]))
    if open_thms:
        broken.append("theorems not closed under the global context: " + ", ".join(t[0] for t in open_thms))
    if build_failure is not None:
        broken.append("correspondence corr.%s: %s\n%s" % (pid, build_failure.what, build_failure.output[-1500:]))
    if repr_only:
        by_key = collections.Counter((f["family"], f["key"]) for f in repr_only)
        broken.append("correspondence " + ", ".join("corr.%s.%s differs on %s in %d cases" % (pid, fam, k, n) for (fam, k), n in sorted(by_key.items()))
                      + ": the model no longer describes what the implementation does on a quantity the property does not fix exactly; "
                      + ("the property's own constraints were checked on the implementation's traces of these cases and hold" if pid in ORACLES
                         else "no failing input for the property itself was found")
                      + "; example: cfg=%s step=%r expected=%s observed=%s" % (core.cfg_key(repr_only[0]["cfg"]),
                            repr_only[0]["steps"][repr_only[0]["step"]] if repr_only[0]["step"] < len(repr_only[0]["steps"]) else "end",
                            repr_only[0]["expected"][:80], repr_only[0]["observed"][:80]))
    if broken and not violations:
        d = os.path.join(ROOT, "replays")
        os.makedirs(d, exist_ok=True)
        path = os.path.join(d, "%s-broken-obligation.json" % pid)
        json.dump(dict(property=pid, broken=broken, note="no failing input was found by the search; the property is no longer shown to hold"),
                  open(path, "w"), indent=1)
        violations.append("VIOLATION property=%s replay=%s no-failing-input-found" % (pid, path))
    seen_known = set()
    for hit, f in known_hits:
        if hit["id"] in seen_known:
            continue
        seen_known.add(hit["id"])
        print("KNOWN-FINDING: property=%s %s (%s)" % (pid, hit["what"], hit["id"]))
    for v in violations:
        print(v)
    # ---------------- evidence
    samples = []
    for c in cases[:: max(1, len(cases) // 5)][:5]:
        samples.append("%s ; %s" % (gen.cfg_head(c[1]), " ; ".join(c[2]))[:600])
    obligations = len(thms) + len(spec["families"])
    # a family is discharged when every disagreement in it is a listed known finding (the theorems are stated
    # for everything outside the known class); any other failure leaves it open
    unknown_failures = len(failures) - len(known_hits)
    discharged = len([t for t in thms if t[1]]) + (len(spec["families"]) if unknown_failures == 0 and build_failure is None else 0)
    ev = dict(
        property_id=pid, tier=tier, seed=seed, level="proof",
        coverage=dict(
            obligations=obligations, discharged=discharged,
            checker_cmd="cd /verif/coq && coq_makefile -f _CoqProject -o Makefile && make -j16 && coqc -Q AV AV AV/Props/%s.v   (Print Assumptions under every theorem)" % pid,
            trusted_base=TRUSTED_BASE,
            theorems=[dict(name=t[0], closed_under_global_context=t[1], assumptions=t[2]) for t in thms],
            correspondences=["corr.%s.%s" % (pid, f) for f in spec["families"]],
            evaluations=stats["evaluations"], distinct_nontrivial=len(stats["distinct"]),
            rule="a case = canonical prefix + one operation instance (exhaustive families) or a random history; run on the implementation "
                 "(harness built from /repo) and on the extracted Coq model; non-trivial = some step changed len/cap/snapshot, returned a "
                 "value, produced an event or did not return normally; distinct = distinct (configuration, script) pairs",
            traces_validated_against_impl=stats["validated"], steps_executed=stats["steps"],
            samples=samples or ["<none>"],
            families={k: v for k, v in dist.items()}, projection=spec["keys"],
            input_distribution=dict(ops=dict(stats["ops"]), outcomes=dict(stats["outs"]),
                                    configurations=len(stats["cfgs"])),
            cases_checked_by_property_oracle=stats.get("oracle_cases", 0),
            steps_inside_history_fragment=stats["spec_steps"], cases_entirely_inside_history_fragment=stats["spec_cases"],
            history_fragment_rule="a step is inside the fragment when WorldSpec.spec_step_f (spec_step without a fuse, the fused fragment with an "
                                  "armed one) is defined on the abstraction of the machine world and the environment assumption admissibleb holds "
                                  "(AV.Proofs.Track.spec_track); for these steps the theorems C01_step_refines / C06_step_refines_fused / spec_track_sound "
                                  "apply and the specification's prediction is compared with the model on every run; a case entirely inside is an "
                                  "instance of C01_history_refines / C06_history_refines_fused from the empty world; compare with steps_executed",
            known_findings_printed=sorted(seen_known), crashed_shards=len(crashed),
            coq_build_s=round(coq_s, 1), extraction_crosschecked_in_coq=cc_count[0], **extra_cov
        ),
        assumptions=ASSUMPTIONS,
        wall_s=round(time.time() - t0, 1), violations=len(violations))
    os.makedirs(os.path.join(ROOT, "evidence"), exist_ok=True)
    json.dump(ev, open(os.path.join(ROOT, "evidence", pid + ".json"), "w"), indent=1)
    print("%s: %d cases, %d validated, %d failures (%d known), theorems %d/%d closed, %.0fs" %
          (pid, stats["evaluations"], stats["validated"], len(failures), len(known_hits), len([t for t in thms if t[1]]), len(thms), time.time() - t0))
    return 1 if violations else 0

TRUSTED_BASE = [
    "Coq 8.16.1 kernel (coqc; vm_compute in finite-domain lemmas and witnesses; no native_compute)",
    "axioms: none declared; Print Assumptions output per theorem is recorded in coverage.theorems",
    "extraction with ExtrOcamlBasic only (bool, option, unit, list, prod, sumbool, sumor, andb, orb); OCaml 4.13.1; zarith only for decimal I/O in the hand-written driver; cross-checked on every run: a random sample of the run's cases (coverage.extraction_crosschecked_in_coq) is re-evaluated inside Coq by vm_compute (AV.Model.Trace) and must give byte-identical trace lines",
    "the list specification (AV.Spec.WorldSpec) is extracted with the model (Track.spec_track, proven sound in AV.Proofs.Track) and its prediction is compared with the model's line on every step it covers (coverage.steps_inside_history_fragment); a disagreement is reported as CHECK-BROKEN",
    "correspondence check: harness (instrumented element types with identities spread over all bytes, registry, Reloc backend, instrumented global allocator, watchdog and address-space limit), case generators, comparator",
    "modelled rather than verified: Rust's dynamic semantics as used by the crate (monomorphised Unknown::is dispatch, unwinding order, ptr::copy = memmove, TypeId equality), the global allocator's contract, rustc's struct layout",
]
ASSUMPTIONS = [
    "the hand-written Gallina model mirrors /repo's source function by function; the tie is the differential correspondence run on every check, within the explored case families",
    "element identity is observed through instrumented element types (token in the low bytes, canary in the rest)",
]


# ======================================================================================
# static (compile-time) properties
# ======================================================================================
def static_evidence(pid, tier, seed, t0, level, thms, extra, violations):
    ev = dict(property_id=pid, tier=tier, seed=seed, level=level,
              coverage=dict(obligations=extra.pop("obligations"), discharged=extra.pop("discharged"),
                            checker_cmd="cd /verif/coq && make && coqc -Q AV AV AV/Props/%s.v (after regenerating AV/Gen from /repo)" % pid,
                            trusted_base=TRUSTED_BASE + ["rustc as the translator from declarations to verdicts; the probe generators (probes/, avcheck/c15.py, avcheck/c16.py)"],
                            theorems=[dict(name=t[0], closed_under_global_context=t[1], assumptions=t[2]) for t in thms],
                            **extra),
              assumptions=["auto-trait resolution and borrow checking depend on a user backend / element type only through the capabilities enumerated in the domain"],
              wall_s=round(time.time() - t0, 1), violations=len(violations))
    os.makedirs(os.path.join(ROOT, "evidence"), exist_ok=True)
    json.dump(ev, open(os.path.join(ROOT, "evidence", pid + ".json"), "w"), indent=1)

def check_c15(pid, tier, seed, replay, t0):
    from . import c15
    os.system("rm -f '%s'/replays/%s-*" % (ROOT, pid))
    known = [k for k in load_known() if k.get("property") == pid and k.get("status") == "known"]
    violations, broken = [], []
    table, bad, rej, rej_bad = {}, [], [], []
    try:
        table = c15.regenerate()
        ncells = c15.write_table(table)
    except core.BuildBroken as e:
        broken.append("translator corr.C15.table: %s\n%s" % (e.what, e.output[-1500:]))
        ncells = 0
    coq_s = core.ensure_coq()
    forb = core.grep_forbidden()
    thms = []
    try:
        thms, _ = theorem_status(pid)
        thms = thms or []
    except core.ObligationBroken as e:
        broken.append("theorem C15_table_ok (AV/Props/C15.v) no longer checks against the regenerated table:\n" + e.output[-800:])
    # search for the failing input: evaluate the rule on every regenerated cell
    for key, v in sorted(table.items()):
        ok, why = c15.rule(key, v)
        if not ok:
            bad.append((key, v, why))
    if table:
        try:
            rej = c15.run_rejections()
            rej_bad = [r for r in rej if r[1] != r[2]]
        except core.BuildBroken as e:
            broken.append("corr.C15.reject: %s" % e.what)
    d = os.path.join(ROOT, "replays"); os.makedirs(d, exist_ok=True)
    seen = set()
    for key, v, why in bad:
        kind, tr, m, t, trait = key.split("|")
        cls = (kind, trait)
        if cls in seen:
            continue
        seen.add(cls)
        similar = len([b for b in bad if (b[0].split("|")[0], b[0].split("|")[4]) == cls])
        path = os.path.join(d, "%s-%s-%s.json" % (pid, kind, trait))
        json.dump(dict(property=pid, cell=key, meaning="kind|constraint set|backend|element class|trait", compiler_verdict=bool(v), rule=why,
                       similar_cells=similar, how_to_replay="./check C15 --replay %s  (re-runs the probe program probes/c15 against /repo and re-evaluates this cell)" % path),
                  open(path, "w"), indent=1)
        print("  failing input (%d similar): cell=%s verdict=%s : %s" % (similar, key, bool(v), why))
        violations.append("VIOLATION property=%s replay=%s" % (pid, path))
    for name, must, did, code in rej_bad[:10]:
        path = os.path.join(d, "%s-reject-%s.json" % (pid, name))
        src = [p for p in c15.reject_programs() if p[0] == name][0][2]
        json.dump(dict(property=pid, program=src, must_compile=must, compiled=did, error=code), open(path, "w"), indent=1)
        print("  failing input: program %s must_compile=%s compiled=%s" % (name, must, did))
        violations.append("VIOLATION property=%s replay=%s" % (pid, path))
    if forb:
        broken.append("forbidden words: " + "; ".join(forb[:5]))
    if tier == "thorough" and thms:
        ok, chk = core.coqchk(pid)
        if not ok:
            broken.append("coqchk does not accept AV.Props.%s with an empty context: %s" % (pid, chk))
    open_thms = [t for t in thms if not t[1]]
    if open_thms:
        broken.append("theorems not closed: " + ", ".join(t[0] for t in open_thms))
    if broken and not violations:
        path = os.path.join(d, "%s-broken-obligation.json" % pid)
        json.dump(dict(property=pid, broken=broken, note="no failing cell was found by the search"), open(path, "w"), indent=1)
        violations.append("VIOLATION property=%s replay=%s no-failing-input-found" % (pid, path))
    for v in violations:
        print(v)
    nthm = len(thms)
    static_evidence(pid, tier, seed, t0, "proof", thms, dict(
        obligations=nthm + 2 + (1 if not thms else 0), discharged=len([t for t in thms if t[1]]) + (1 if table and not bad else 0) + (1 if rej and not rej_bad else 0),
        cells=len(table), cells_in_coq_table=ncells, violating_cells=len(bad), rejection_programs=len(rej), rejection_disagreements=len(rej_bad),
        evaluations=len(table) + len(rej), distinct_nontrivial=len(table) + len(rej),
        rule="every cell of the finite domain (type kind x constraint set x backend capability class x element class x trait) is decided by rustc (impls! constants / value probes) and by the Coq rule; rejection programs are compiled one by one",
        samples=[k + "=" + str(v) for k, v in list(sorted(table.items()))[:: max(1, len(table) // 6)]][:8] or ["<none>"],
        exhaustive=True, coq_build_s=round(coq_s, 1)), violations)
    print("%s: %d cells (%d violating), %d rejection programs (%d wrong), theorems %d/%d closed, %.0fs" %
          (pid, len(table), len(bad), len(rej), len(rej_bad), len([t for t in thms if t[1]]), len(thms), time.time() - t0))
    return 1 if violations else 0

def check_c16(pid, tier, seed, replay, t0):
    from . import c16
    os.system("rm -f '%s'/replays/%s-*" % (ROOT, pid))
    known = [k for k in load_known() if k.get("property") == pid and k.get("status") == "known"]
    known_cells = {(k["signature"]["row"], k["signature"]["col"]): k for k in known}
    violations, broken = [], []
    res = {}
    try:
        res = c16.run()
        c16.write_table(res, known)
    except core.BuildBroken as e:
        broken.append("translator corr.C16.table: %s\n%s" % (e.what, e.output[-1500:]))
    coq_s = core.ensure_coq()
    forb = core.grep_forbidden()
    thms = []
    try:
        thms, _ = theorem_status(pid)
        thms = thms or []
    except core.ObligationBroken as e:
        broken.append("theorem C16_table_ok (AV/Props/C16.v) no longer checks against the regenerated table:\n" + e.output[-800:])
    d = os.path.join(ROOT, "replays"); os.makedirs(d, exist_ok=True)
    holes, bad_controls, known_seen = [], [], []
    for (r, c), v in sorted(res.items()):
        if not v["control_accepted"]:
            bad_controls.append((r, c, v))
        if not v["probe_rejected"]:
            if (r, c) in known_cells:
                known_seen.append((r, c))
            else:
                holes.append((r, c, v))
    for r, c, v in holes[:12]:
        probe, control = c16.probe_source(r, c)
        path = os.path.join(d, "%s-%s-%s.rs" % (pid, r, c))
        open(path, "w").write("// C16 violation: this program must NOT compile (handle-producing method `%s`, conflicting action %s), but rustc accepts it against /repo.\n"
                              "// Context: see probes/c16/src/main.rs (prelude with setup/touch helpers).\n%s\n// its conflict-free control:\n%s" % (r, c, probe, control))
        print("  failing input: method=%s action=%s : the conflicting program compiles" % (r, c))
        violations.append("VIOLATION property=%s replay=%s" % (pid, path))
    for r, c, v in bad_controls[:12]:
        probe, control = c16.probe_source(r, c)
        path = os.path.join(d, "%s-control-%s-%s.rs" % (pid, r, c))
        open(path, "w").write("// C16 violation: this conflict-free program must compile, but rustc rejects it (%s).\n%s" % (",".join(v["control_codes"]), control))
        print("  failing input: method=%s action=%s : the conflict-free control is rejected (%s)" % (r, c, ",".join(v["control_codes"])))
        violations.append("VIOLATION property=%s replay=%s" % (pid, path))
    if forb:
        broken.append("forbidden words: " + "; ".join(forb[:5]))
    if tier == "thorough" and thms:
        ok, chk = core.coqchk(pid)
        if not ok:
            broken.append("coqchk does not accept AV.Props.%s with an empty context: %s" % (pid, chk))
    open_thms = [t for t in thms if not t[1]]
    if open_thms:
        broken.append("theorems not closed: " + ", ".join(t[0] for t in open_thms))
    if broken and not violations:
        path = os.path.join(d, "%s-broken-obligation.json" % pid)
        json.dump(dict(property=pid, broken=broken, note="no failing program was found by the search"), open(path, "w"), indent=1)
        violations.append("VIOLATION property=%s replay=%s no-failing-input-found" % (pid, path))
    for (r, c) in known_seen:
        k = known_cells[(r, c)]
        print("KNOWN-FINDING: property=%s %s (%s)" % (pid, k["what"], k["id"]))
    for v in violations:
        print(v)
    static_evidence(pid, tier, seed, t0, "proof", thms, dict(
        obligations=len(thms) + 1 + (1 if not thms else 0), discharged=len([t for t in thms if t[1]]) + (1 if res and not holes and not bad_controls else 0),
        programs=2 * len(res), cells=len(res), known_findings_printed=["%s/%s" % rc for rc in known_seen], new_holes=len(holes), rejected_controls=len(bad_controls),
        error_codes=dict(collections.Counter(c for v in res.values() for c in v["codes"])),
        evaluations=2 * len(res), distinct_nontrivial=2 * len(res),
        rule="one probe (conflicting program) and one control (same program without the conflict) per (handle-producing method, conflicting action class); all compiled by rustc in one cargo check, errors attributed to functions by line",
        samples=[c16.probe_source(r, c)[0] for (r, c) in list(sorted(res))[:: max(1, len(res) // 4)]][:5] or ["<none>"],
        exhaustive=True, coq_build_s=round(coq_s, 1)), violations)
    print("%s: %d cells, %d known findings, %d new holes, %d rejected controls, theorems %d/%d closed, %.0fs" %
          (pid, len(res), len(known_seen), len(holes), len(bad_controls), len([t for t in thms if t[1]]), len(thms), time.time() - t0))
    return 1 if violations else 0

STATIC = {"C15": check_c15, "C16": check_c16}
