"""Case generators.  Every family is a function (cfg, tier, rng) -> list of scripts
(a script = list of step strings).  All random choices come from the rng passed in
(seeded from VERIF_SEED), so a run replays exactly."""
import itertools

USIZE_MAX = 2**64 - 1

def fixed_cap(be, sz):
    p = be.split(":")
    if p[0] == "stack":
        return USIZE_MAX if sz == 0 else int(p[1]) // sz
    if p[0] == "stackn":
        return int(p[1])
    if p[0] == "empty":
        return 0
    return None  # resizable

def build_ok(be, sz):
    p = be.split(":")
    if p[0] == "stackn":
        return int(p[1]) * sz <= int(p[2])
    return True

def resizable(be):
    return be.split(":")[0] in ("heap", "reloc")

def cfg_head(cfg):
    return "sz=%d al=%d dg=%d cl=%d trap=%d tr=%s be=%s" % (
        cfg["sz"], cfg["al"], cfg["dg"], 1 if "c" in cfg["tr"] else 0, cfg["trap"], cfg["tr"], cfg["be"])

def cloneable(cfg):
    return "c" in cfg["tr"]

def prefix(cfg, lens, full=False):
    """Canonical prefix: vectors 0..len(lens)-1 with the given lengths.
    full=True (resizable backends): capacity == length for vector 0."""
    be = cfg["be"]
    steps = []
    for vid, n in enumerate(lens):
        if full and vid == 0 and resizable(be):
            steps.append("withcap %d %s %d" % (vid, be, n))
        else:
            steps.append("new %d %s" % (vid, be))
        for _ in range(n):
            steps.append("push e %d w" % vid)
    return steps

def max_len(cfg, want):
    cap = fixed_cap(cfg["be"], cfg["sz"])
    return want if cap is None else min(want, cap)

# ----------------------------------------------------------------------------------
def sources(cfg, other, other_len):
    s = ["w", "box", "raw", "rawt", "raws"]
    if other_len > 0:
        s += ["tmp:%d:pop:0" % other, "tmp:%d:rm:0" % other, "tmp:%d:srm:0" % other]
        if other_len > 1:
            s += ["tmp:%d:rm:%d" % (other, other_len - 1)]
        if cloneable(cfg):
            s += ["lz:1:%d:0" % other, "lz:2:%d:%d" % (other, other_len - 1), "lz:3:%d:0" % other]
    return s

def handle_sinks(cfg, other, other_len):
    s = ["drop", "down", "push:%d" % other, "ins:%d:0" % other, "ins:%d:%d" % (other, other_len),
         "mut+down", "mut+push:%d" % other, "mut+drop"]
    if cloneable(cfg):
        s += ["lz:2:%d+drop" % other, "lz:1:%d+push:%d" % (other, other)]
    return s

def value_sinks(other):
    return ["down", "drop", "push:%d" % other, "ins:%d:0" % other]

def fam_elem(cfg, tier, rng):
    """C01/C03/C05/C11: every element-wise operation instance from every small state."""
    L = 3 if tier == "quick" else 5
    out = []
    other_len = max_len(cfg, 2)
    for n in range(0, max_len(cfg, L) + 1):
        for full in ([False, True] if resizable(cfg["be"]) else [False]):
            pre = prefix(cfg, [n, other_len], full)
            ops = []
            for s in sources(cfg, 1, other_len):
                ops.append("push e 0 %s" % s)
                for i in range(0, n + 2):
                    ops.append("insert e 0 %d %s" % (i, s))
            ops.append("push t 0 w")
            for i in range(0, n + 2):
                ops.append("insert t 0 %d w" % i)
            for k in handle_sinks(cfg, 1, other_len):
                ops.append("pop e 0 %s" % k)
                for i in range(0, n + 2):
                    ops.append("remove e 0 %d %s" % (i, k))
                    ops.append("swap_remove e 0 %d %s" % (i, k))
            for k in value_sinks(1):
                ops.append("pop t 0 %s" % k)
                for i in range(0, n + 2):
                    ops.append("remove t 0 %d %s" % (i, k))
                    ops.append("swap_remove t 0 %d %s" % (i, k))
            for a in "et":
                ops.append("clear %s 0" % a)
                for i in range(0, n + 2):
                    ops.append("get %s 0 %d" % (a, i))
                    ops.append("at %s 0 %d" % (a, i))
            for op in ops:
                out.append(pre + [op, "iter ref 0 " + "F" * (n + 2), "dropvec 0", "dropvec 1"])
    return out

def fam_boundary_copy(cfg, tier, rng):
    """C01: erased insert/remove shifting byte counts around the copy_bytes threshold
    (0, sz, 127-, 128, 129+ bytes)."""
    if not resizable(cfg["be"]) or cfg["sz"] == 0:
        return []
    sz = cfg["sz"]
    out = []
    targets = sorted(set(max(0, x) for x in [0, 1, 126 // sz, 127 // sz, 128 // sz, 128 // sz + 1, 129 // sz + 1, 256 // sz + 1]))
    for shifted in targets:
        for extra in (0, 1):
            n = shifted + extra
            if n > 300 or (sz == 1 and n > 240):
                continue
            pre = prefix(cfg, [n])
            out.append(pre + ["insert e 0 %d box" % extra, "dropvec 0"])
            out.append(pre + ["insert e 0 %d raw" % extra, "dropvec 0"])
            out.append(pre + ["insert t 0 %d w" % extra, "dropvec 0"])
            if n > extra:
                out.append(pre + ["remove e 0 %d drop" % extra, "dropvec 0"])
                out.append(pre + ["remove t 0 %d down" % extra, "dropvec 0"])
    return out

def bounds_forms(s, e, n):
    """All RangeBounds forms denoting [s, e) on a vector of length n."""
    sb = ["i%d" % s] + (["x%d" % (s - 1)] if s > 0 else []) + (["u"] if s == 0 else [])
    eb = ["x%d" % e] + (["i%d" % (e - 1)] if e > 0 else []) + (["u"] if e == n else [])
    return [(a, b) for a in sb for b in eb]

def patterns(k, tier):
    """Consumption patterns over a range of k items: all F/B strings up to length k+1
    (quick: up to 3) ."""
    lim = min(k + 1, 3 if tier == "quick" else 5)
    out = [""]
    for l in range(1, lim + 1):
        out += ["".join(p) for p in itertools.product("FB", repeat=l)]
    return out

def fam_range(cfg, tier, rng):
    """C02/C03/C05/C11/C14: drain and splice, every range, form, pattern, sink, replacement."""
    L = 3 if tier == "quick" else 4
    out = []
    other_len = max_len(cfg, 2)
    cap = fixed_cap(cfg["be"], cfg["sz"])
    item_sinks = ["down", "drop", "push:1"]
    for n in range(0, max_len(cfg, L) + 1):
        pre = prefix(cfg, [n, other_len])
        post = ["iter ref 0 " + "F" * (n + 1), "dropvec 0", "dropvec 1"]
        for s in range(0, n + 1):
            for e in range(s, n + 1):
                forms = bounds_forms(s, e, n)
                for fi, (sb, eb) in enumerate(forms):
                    pats = patterns(e - s, tier) if fi == 0 else ["", "FB"]
                    for pat in pats:
                        sinks = item_sinks if (fi == 0 and len(pat) <= 2) else ["down"]
                        for sk in sinks:
                            p = ",".join(c + sk for c in pat) if pat else "-"
                            for a in "et":
                                if a == "t" and sk == "drop":
                                    continue
                                out.append(pre + ["drain %s 0 %s %s %s drop" % (a, sb, eb, p)] + post)
                    # splice: replacement lengths 0..3, kinds
                    if fi == 0:
                        for rn in range(0, 4):
                            for pat in ["", "F", "B", "FB"]:
                                if len(pat) > e - s + 1:
                                    continue
                                p = ",".join(c + "down" for c in pat) if pat else "-"
                                kinds = [("e", "w"), ("e", "box"), ("t", "w")]
                                if cloneable(cfg) and other_len > 0:
                                    kinds.append(("e", "lz:1"))
                                for a, rk in kinds:
                                    out.append(pre + ["splice %s 0 %s %s %s drop %s %d - %d" % (a, sb, eb, p, rk, rn, rn)] + post)
        # invalid ranges around the boundary and at usize::MAX
        bad = [("i%d" % (n + 1), "u"), ("u", "x%d" % (n + 1)), ("u", "i%d" % n), ("i1", "x0"),
               ("x%d" % n, "u"), ("u", "i%d" % USIZE_MAX), ("x%d" % USIZE_MAX, "u"),
               ("i%d" % USIZE_MAX, "u"), ("u", "x%d" % USIZE_MAX), ("i2", "i0")]
        for sb, eb in bad:
            for a in "et":
                out.append(pre + ["drain %s 0 %s %s - drop" % (a, sb, eb)] + post)
                out.append(pre + ["splice %s 0 %s %s - drop w 2 - 2" % (a, sb, eb)] + post)
    return out

def fam_iter(cfg, tier, rng):
    """C14: every next/next_back string (plus calls after exhaustion) on every iterator."""
    L = 3 if tier == "quick" else 5
    out = []
    for n in range(0, max_len(cfg, L) + 1):
        pre = prefix(cfg, [n, 0])
        for l in range(0, n + 3):
            for pat in itertools.product("FB", repeat=l):
                p = "".join(pat) or "-"
                for k in ("ref", "mut", "tref", "tmut", "iref", "imut", "itref", "itmut"):
                    out.append(pre + ["iter %s 0 %s" % (k, p)])
        # range iterators: every sub-range
        for s in range(0, n + 1):
            for e in range(s, n + 1):
                for l in range(0, e - s + 3):
                    for pat in itertools.product("FB", repeat=l):
                        p = ",".join(c + "down" for c in pat) or "-"
                        for a in "et":
                            out.append(pre + ["drain %s 0 i%d x%d %s drop" % (a, s, e, p)])
                            out.append(pre + ["splice %s 0 i%d x%d %s drop w 1 - 1" % (a, s, e, p)])
                        # the same sub-range written with every other pair of bounds (excluded start, included end,
                        # unbounded): seeded change C14-m11 forgot to advance an excluded start
                        if l <= e - s + 1:
                            for (sb, eb) in bounds_forms(s, e, n)[1:]:
                                for a in "et":
                                    out.append(pre + ["drain %s 0 %s %s %s drop" % (a, sb, eb, p)])
                                    out.append(pre + ["splice %s 0 %s %s %s drop w 1 - 1" % (a, sb, eb, p)])
    return out

def fam_capacity(cfg, tier, rng):
    """C10/C18: capacity calls from every (len, cap) state, arguments 0..bound+2 and near usize::MAX."""
    if not resizable(cfg["be"]):
        return []
    L = 3 if tier == "quick" else 5
    out = []
    big = [USIZE_MAX, USIZE_MAX - 1, USIZE_MAX // 2, USIZE_MAX // 2 + 1, 2**63 - 1, 2**63, 2**62, 2**33]
    if cfg["sz"] > 1:
        big += [USIZE_MAX // cfg["sz"], USIZE_MAX // cfg["sz"] + 1, (2**63 - 1) // cfg["sz"], (2**63 - 1) // cfg["sz"] + 1]
    for n in range(0, L + 1):
        for extra in range(0, 3):
            pre = ["withcap 0 %s %d" % (cfg["be"], n + extra)] + ["push e 0 w"] * n
            post = ["push e 0 w", "dropvec 0"]
            for a in range(0, L + 3):
                out.append(pre + ["reserve 0 %d" % a] + post)
                out.append(pre + ["reserve_exact 0 %d" % a] + post)
                out.append(pre + ["shrink_to 0 %d" % a] + post)
            out.append(pre + ["shrink_to_fit 0"] + post)
            out.append(pre + ["shrink_to_fit 0", "shrink_to_fit 0", "reserve 0 1"] + post)
            out.append(pre + ["clear e 0", "shrink_to_fit 0"] + post)
            for b in big:
                # huge requests either panic (overflow / invalid layout) or - for zero-sized
                # elements - succeed without allocating; allocation failures abort the
                # process and are run by the abort family
                if cfg["sz"] == 0 or b * cfg["sz"] > 2**63 - 1 - (cfg["al"] - 1) or n + b > USIZE_MAX:
                    out.append(pre + ["reserve 0 %d" % b] + post)
                    out.append(pre + ["reserve_exact 0 %d" % b] + post)
                out.append(pre + ["shrink_to 0 %d" % b] + post)
    for b in big:
        if cfg["sz"] == 0 or b * cfg["sz"] > 2**63 - 1 - (cfg["al"] - 1):
            out.append(["withcap 0 %s %d" % (cfg["be"], b), "push e 0 w", "dropvec 0"])
    # the growth policy at larger scales (seeded change C10-m10 stopped doubling above 1 MiB): one more element than
    # a storage of B bytes holds is asked for - through reserve (amortised: doubles on the heap), reserve_exact, and a
    # push into the full storage after the typed view filled it
    if cfg["sz"] > 0:
        scales = [2**14, 2**17, 2**20, 3 * 2**19, 2**21] if tier == "quick" else [2**14, 2**17, 2**20, 3 * 2**19, 2**21, 2**22]
        for B in scales:
            cap0 = (B + cfg["sz"] - 1) // cfg["sz"]
            for call in ("reserve", "reserve_exact", "treserve"):
                out.append(["withcap 0 %s %d" % (cfg["be"], cap0), "%s 0 %d" % (call, cap0 + 1), "push e 0 w", "shrink_to 0 %d" % (cap0 // 2),
                            "reserve 0 %d" % (cap0 // 2 + 1), "dropvec 0"])
    # push runs: growth policy / amortisation
    runs = [1, 2, 3, 5, 9, 17, 33, 65] if tier == "quick" else [1, 2, 3, 5, 9, 17, 33, 65, 129, 257, 513]
    for r in runs:
        if cfg["sz"] <= 3 and r > 250:
            continue
        out.append(["new 0 %s" % cfg["be"]] + ["push e 0 w"] * r + ["dropvec 0"])
    # the same calls through the typed view (AnyVecTyped::reserve / reserve_exact / shrink_to_fit / shrink_to):
    # every case with small arguments a second time, every other case with a huge argument instead of the erased call
    def typed(case):
        return [("t" + st) if st.split(" ")[0] in ("reserve", "reserve_exact", "shrink_to_fit", "shrink_to") else st for st in case]
    def small(case):
        return all(int(st.split(" ")[2]) <= L + 3 for st in case if st.split(" ")[0] in ("reserve", "reserve_exact", "shrink_to"))
    res = []
    for i, cs in enumerate(out):
        if not any(st.split(" ")[0] in ("reserve", "reserve_exact", "shrink_to_fit", "shrink_to") for st in cs):
            res.append(cs)
        elif small(cs):
            res.append(cs); res.append(typed(cs))
        else:
            res.append(typed(cs) if i % 2 else cs)
    return res

def fam_views(cfg, tier, rng):
    """C12: byte / slice view geometry in every (len, cap) state, spare writes + set_len."""
    L = 3 if tier == "quick" else 5
    out = []
    for n in range(0, max_len(cfg, L) + 1):
        pres = [prefix(cfg, [n])]
        if resizable(cfg["be"]):
            pres += [["withcap 0 %s %d" % (cfg["be"], n + x)] + ["push e 0 w"] * n for x in (0, 1, 3)]
        for pre in pres:
            out.append(pre + ["views 0", "dropvec 0"])
            if resizable(cfg["be"]):
                # the (dangling) storage pointer after the capacity went back to zero
                out.append(pre + ["clear e 0", "shrink_to_fit 0", "views 0", "push e 0 w", "views 0", "dropvec 0"])
                out.append(pre + ["clear e 0", "shrink_to 0 0", "views 0", "dropvec 0"])
                # a capacity request that is rejected (byte size overflows) must leave capacity and views alone
                if cfg["sz"] > 0:
                    for big in (min(USIZE_MAX, USIZE_MAX // cfg["sz"] + 1), (2**63 - 1) // cfg["sz"] + 1, USIZE_MAX):
                        if not (big * cfg["sz"] > 2**63 - 1 - (cfg["al"] - 1) or n + big > USIZE_MAX):
                            continue      # a valid but unservable request aborts the process (handle_alloc_error)
                        out.append(pre + ["reserve 0 %d" % big, "views 0", "push e 0 w", "views 0", "dropvec 0"])
                        out.append(pre + ["reserve_exact 0 %d" % big, "views 0", "spare_write e 0 0", "views 0", "dropvec 0"])
        cap = fixed_cap(cfg["be"], cfg["sz"])
        for k in range(0, 4):
            if cap is not None and n + k > cap:
                continue
            for a in "et":
                if resizable(cfg["be"]):
                    pre = ["withcap 0 %s %d" % (cfg["be"], n + k + 1)] + ["push e 0 w"] * n
                else:
                    if cap is not None and n + k > cap:
                        continue
                    pre = prefix(cfg, [n])
                out.append(pre + ["spare_write %s 0 %d" % (a, k), "views 0", "iter ref 0 " + "F" * (n + k + 1), "dropvec 0"])
    return out

def fam_clone(cfg, tier, rng):
    """C08: clone / clone_empty of every small state, then every single operation on either."""
    if not cloneable(cfg):
        return [prefix(cfg, [n]) + ["clone_empty 0 1", "push e 1 w", "pop e 1 drop", "dropvec 1", "dropvec 0"]
                for n in range(0, max_len(cfg, 2) + 1)]
    L = 3 if tier == "quick" else 5
    out = []
    single = ["push e %d w", "insert e %d 0 box", "pop e %d drop", "remove e %d 0 down", "swap_remove e %d 0 drop",
              "clear e %d", "drain e %d u u Fdown drop", "splice e %d u u - drop w 1 - 1"]
    for n in range(0, max_len(cfg, L) + 1):
        pres = [prefix(cfg, [n])]
        if resizable(cfg["be"]):
            pres.append(["withcap 0 %s %d" % (cfg["be"], n + 2)] + ["push e 0 w"] * n)
        for pre in pres:
            out.append(pre + ["clone 0 1", "clone_empty 0 2", "push e 2 w", "push e 2 lz:1:0:0" if n > 0 else "push e 2 w",
                              "dropvec 2", "dropvec 0", "iter ref 1 " + "F" * (n + 1), "dropvec 1"])
            for op in single:
                for target in (0, 1):
                    out.append(pre + ["clone 0 1", op % target, "iter ref 0 " + "F" * (n + 2), "iter ref 1 " + "F" * (n + 2),
                                      "dropvec 0", "dropvec 1"])
            out.append(pre + ["clone 0 1", "clone 1 2", "dropvec 0", "dropvec 1", "dropvec 2"])
    return out

def fam_clone_in(cfg, tier, rng):
    """C08 (also C11, C18): clone_empty_in for every backend pair (source = the case's backend, target = each backend the
    harness instantiates) from every small state: the clone is held in the caller's frame, takes k fresh values (up to one
    beyond a fixed target capacity), is read back, cloned (Cloneable constraint sets), popped and dropped; with and
    without a panicking Clone / destructor inside; then the source is used again."""
    L = 2 if tier == "quick" else 4
    targets = ["reloc:2", "empty"]
    if not cfg.get("noalloc"):
        targets.insert(0, "heap")
    if cfg["al"] <= 8:          # over-aligned elements on the inline stack buffers: known finding D7
        targets += ["stack:512", "stackn:3:512"]
    out = []
    for n in range(0, max_len(cfg, L) + 1):
        pre = prefix(cfg, [n])
        for t in targets:
            if not build_ok(t, cfg["sz"]):
                ks = [0]
            else:
                tcap = fixed_cap(t, cfg["sz"])
                ks = list(range(0, min(4, (tcap + 1) if tcap is not None else 4) + 1))
            for k in ks:
                out.append(pre + ["clone_in 0 %s %d" % (t, k)] + usable_after(cfg, [0]))
                if cfg["dg"] and k > 0:
                    for j in range(0, min(2 * k + 2, 5)):
                        out.append(pre + ["fuse=%d clone_in 0 %s %d" % (j, t, k)] + usable_after(cfg, [0]))
    return out

def fam_random(cfg, tier, rng):
    """Long random histories on large vectors (mostly valid operations plus a malformed
    stream: bad index, bad range).  Lengths are tracked here only to aim the indices."""
    if not resizable(cfg["be"]):
        return []
    ncase = 4 if tier == "quick" else 24
    nstep = 120 if tier == "quick" else 320
    if cfg["sz"] in (1,):
        nstep = min(nstep, 100)
    out = []
    for _ in range(ncase):
        lens = [0, 0, 0]
        steps = ["new 0 %s" % cfg["be"], "new 1 %s" % cfg["be"], "new 2 %s" % cfg["be"]]
        created = 0
        limit = 200 if cfg["sz"] == 1 else 10**9
        grow = rng.random() < 0.7
        for _ in range(nstep):
            v = rng.randrange(3)
            o = (v + 1 + rng.randrange(2)) % 3
            r = rng.random()
            n = lens[v]
            bad = rng.random() < 0.04
            if created >= limit:
                r = 0.5 + r / 2
            if r < (0.45 if grow else 0.3):
                kind = rng.choice(["w", "box", "raw", "rawt", "raws", "tw"])
                created += 1
                if rng.random() < 0.5:
                    steps.append("push %s %d w" % ("t", v) if kind == "tw" else "push e %d %s" % (v, kind))
                    lens[v] += 1
                else:
                    i = n + 1 + rng.randrange(3) if bad else rng.randrange(n + 1)
                    steps.append("insert t %d %d w" % (v, i) if kind == "tw" else "insert e %d %d %s" % (v, i, kind))
                    if i <= n:
                        lens[v] += 1
            elif r < 0.55 and n > 0 and cloneable(cfg) and created < limit:
                created += 1
                steps.append("push e %d lz:%d:%d:%d" % (o, 1 + rng.randrange(2), v, rng.randrange(n)))
                lens[o] += 1
            elif r < 0.75:
                if n == 0 or bad:
                    i = n + rng.randrange(2)
                    steps.append(rng.choice(["remove e %d %d drop", "swap_remove t %d %d down", "at e %d %d"]) % (v, i))
                    if n == 0:
                        steps.append("pop e %d drop" % v)
                else:
                    i = rng.randrange(n)
                    k = rng.choice(["drop", "down", "push:%d" % o, "ins:%d:%d" % (o, rng.randrange(lens[o] + 1)), "mut+down"])
                    a = rng.choice("et")
                    if a == "t":
                        k = rng.choice(["down", "push:%d" % o])
                    op = rng.choice(["pop", "remove", "swap_remove"])
                    if op == "pop":
                        steps.append("pop %s %d %s" % (a, v, k))
                    else:
                        steps.append("%s %s %d %d %s" % (op, a, v, i, k))
                    lens[v] -= 1
                    if k.startswith("push") or k.startswith("ins"):
                        lens[o] += 1
            elif r < 0.9:
                s = rng.randrange(n + 1)
                e = s + rng.randrange(n - s + 1)
                if e - s > 6:
                    e = s + rng.randrange(7)
                if bad:
                    s, e = e + 1, s
                forms = bounds_forms(s, e, n) if not bad else [("i%d" % s, "x%d" % e)]
                sb, eb = rng.choice(forms)
                k = e - s if not bad else 0
                pat = [rng.choice("FB") + rng.choice(["down", "drop", "push:%d" % o]) for _ in range(rng.randrange(k + 2))]
                a = rng.choice("et")
                if a == "t":
                    pat = [p[0] + ("down" if p[1:] == "drop" else p[1:]) for p in pat]
                pushed = sum(1 for j, p in enumerate(pat) if p[1:].startswith("push") and j < k)
                p = ",".join(pat) or "-"
                if rng.random() < 0.5 or created >= limit:
                    steps.append("drain %s %d %s %s %s drop" % (a, v, sb, eb, p))
                    if not bad:
                        lens[v] -= k
                        lens[o] += pushed
                else:
                    rn = rng.randrange(4)
                    rk = rng.choice(["w", "box"]) if a == "e" else "w"
                    created += rn
                    steps.append("splice %s %d %s %s %s drop %s %d - %d" % (a, v, sb, eb, p, rk, rn, rn))
                    if not bad:
                        lens[v] += rn - k
                        lens[o] += pushed
            elif r < 0.93:
                steps.append("clear %s %d" % (rng.choice("et"), v))
                lens[v] = 0
            elif r < 0.97:
                steps.append(rng.choice(["", "t"]) +
                             rng.choice(["reserve %d %d" % (v, rng.randrange(9)), "reserve_exact %d %d" % (v, rng.randrange(9)),
                                         "shrink_to_fit %d" % v, "shrink_to %d %d" % (v, rng.randrange(n + 9))]))
            else:
                steps.append("iter %s %d %s" % (rng.choice(["ref", "mut", "tref", "tmut"]), v, "".join(rng.choice("FB") for _ in range(min(n, 6) + 1))))
        steps += ["dropvec 0", "dropvec 1", "dropvec 2"]
        out.append(steps)
    return out

def usable_after(cfg, vids):
    """continued use after a fault: push, read, clear, drop"""
    post = []
    for v in vids:
        post += ["push e %d w" % v, "iter ref %d FFFFFF" % v, "pop e %d down" % v]
    for v in vids:
        post += ["clear e %d" % v, "push t %d w" % v, "dropvec %d" % v]
    return post

def fuse_ops(cfg, n, other_len):
    """operation instances that call user code (element Drop / Clone, replacement next)"""
    ops = []
    mid = n // 2
    for a in "et":
        ops.append("clear %s 0" % a)
        if n > 0:
            ops += ["remove %s 0 %d %s" % (a, mid, "drop" if a == "e" else "down"),
                    "swap_remove %s 0 0 %s" % (a, "drop" if a == "e" else "down"),
                    "pop %s 0 %s" % (a, "drop" if a == "e" else "down")]
        for s in range(0, n + 1):
            for e in range(s, n + 1):
                if e - s > 3:
                    continue
                ops.append("drain %s 0 i%d x%d - drop" % (a, s, e))
                if e > s:
                    ops.append("drain %s 0 i%d x%d F%s drop" % (a, s, e, "drop" if a == "e" else "down"))
                    ops.append("drain %s 0 i%d x%d B%s,Fdown drop" % (a, s, e, "drop" if a == "e" else "down"))
                for rn in (0, 1, 2, 3):
                    ops.append("splice %s 0 i%d x%d - drop w %d - %d" % (a, s, e, rn, rn))
                    if a == "e":
                        ops.append("splice e 0 i%d x%d - drop box %d - %d" % (s, e, rn, rn))
                        if cloneable(cfg) and other_len > 0 and rn > 0:
                            ops.append("splice e 0 i%d x%d - drop lz:1 %d - %d" % (s, e, rn, rn))
    if cloneable(cfg):
        ops.append("clone 0 2")
        if other_len > 0:
            ops.append("push e 0 lz:1:1:0")
            ops.append("push e 0 lz:2:1:%d" % (other_len - 1))
            for i in range(0, n + 1):
                ops.append("insert e 0 %d lz:1:1:0" % i)
        if n > 0:
            ops += ["remove e 0 %d lz:2:1+drop" % mid, "pop e 0 lz:1:1+push:1", "drain e 0 u u Flz:2:1+drop drop"]
    ops.append("dropvec 0")
    return ops

def fam_fuse(cfg, tier, rng):
    """C06: every k-th invocation of user code inside an operation panics."""
    if not cfg["dg"] and not cloneable(cfg):
        return []
    L = 3 if tier == "quick" else 4
    K = 5 if tier == "quick" else 9
    out = []
    other_len = max_len(cfg, 2)
    for n in range(0, max_len(cfg, L) + 1):
        pre = prefix(cfg, [n, other_len])
        for op in fuse_ops(cfg, n, other_len):
            for k in range(0, K):
                post = usable_after(cfg, [1] if op.startswith("dropvec") else [0, 1])
                if op.startswith("clone"):
                    post = ["iter ref 0 FFFF"] + post
                out.append(pre + ["fuse=%d %s" % (k, op)] + post)
    return out

def fam_lazyfuse(cfg, tier, rng):
    """C03: a lazy clone whose Clone panics, offered to push / insert - also right after an element
    has been moved out to another vector (the spare slot then still holds its bytes)."""
    if not cloneable(cfg):
        return []
    L = 3 if tier == "quick" else 4
    out = []
    other_len = max_len(cfg, 2)
    if other_len == 0:
        return []
    for n in range(0, max_len(cfg, L) + 1):
        pre = prefix(cfg, [n, other_len])
        post = usable_after(cfg, [0, 1])
        heads = [[]]
        if n > 0 and fixed_cap(cfg["be"], cfg["sz"]) != other_len:
            heads.append(["pop e 0 push:1"])
        for hd in heads:
            m = n - len(hd)
            out.append(pre + hd + ["fuse=0 push e 0 lz:1:1:0"] + post)
            out.append(pre + hd + ["fuse=0 push e 0 lz:2:1:0", "push e 0 lz:1:1:0"] + post)
            for i in range(0, m + 1):
                out.append(pre + hd + ["fuse=0 insert e 0 %d lz:1:1:0" % i] + post)
    return out

def fam_dropfuse(cfg, tier, rng):
    """C03/C05: the k-th element destructor inside clear / a dropped removal handle / a dropped drain /
    a vector drop panics."""
    if not cfg["dg"]:
        return []
    L = 3 if tier == "quick" else 4
    out = []
    other_len = max_len(cfg, 2)
    for n in range(1, max_len(cfg, L) + 1):
        pre = prefix(cfg, [n, other_len])
        ops = ["clear e 0", "clear t 0", "dropvec 0", "pop e 0 drop"]
        for i in range(0, n):
            ops += ["remove e 0 %d drop" % i, "swap_remove e 0 %d drop" % i]
        for s_ in range(0, n + 1):
            for e_ in range(s_ + 1, n + 1):
                ops += ["drain e 0 i%d x%d - drop" % (s_, e_), "drain t 0 i%d x%d - drop" % (s_, e_)]
        for op in ops:
            for k in range(0, min(n, 3)):
                post = usable_after(cfg, [1] if op.startswith("dropvec") else [0, 1])
                out.append(pre + ["fuse=%d %s" % (k, op)] + post)
    return out

def fam_clonefuse(cfg, tier, rng):
    """C05/C08: the k-th element Clone of a whole-vector clone panics (the half-built copy is dropped)."""
    if not cloneable(cfg):
        return []
    L = 3 if tier == "quick" else 5
    out = []
    for n in range(1, max_len(cfg, L) + 1):
        pre = prefix(cfg, [n, 0])
        for k in range(0, n + 1):
            out.append(pre + ["fuse=%d clone 0 2" % k, "iter ref 0 FFFFFF"] + usable_after(cfg, [0, 1]))
    return out

def fam_liar(cfg, tier, rng):
    """C06: replacement iterators whose len() is off by -2..=+2 (with and without a fuse)."""
    L = 3 if tier == "quick" else 4
    out = []
    other_len = max_len(cfg, 2)
    cap = fixed_cap(cfg["be"], cfg["sz"])
    for n in range(0, max_len(cfg, L) + 1):
        pre = prefix(cfg, [n, other_len])
        for s in range(0, n + 1):
            for e in range(s, n + 1):
                for rn in range(0, 4):
                    for d in (-2, -1, 1, 2):
                        cl = rn + d
                        if cl < 0:
                            continue
                        kinds = [("e", "w"), ("e", "box"), ("t", "w")]
                        if cloneable(cfg) and other_len > 0:
                            kinds.append(("e", "lz:1"))
                        for a, rk in kinds:
                            for pat in ("-", "Fdown", "Bdown"):
                                if pat != "-" and e == s:
                                    continue
                                out.append(pre + ["splice %s 0 i%d x%d %s drop %s %d - %d" % (a, s, e, pat, rk, rn, cl)]
                                           + usable_after(cfg, [0, 1]))
                    # an iterator whose len() answer changes between two questions (first answer / later answers):
                    # honest first, then more or fewer; wrong first, then honest
                    for cl in ("%d/%d" % (rn, rn + 2), "%d/%d" % (rn, max(0, rn - 1)), "%d/%d" % (rn + 1, rn), "%d/%d" % (max(0, rn - 1), rn + 1)):
                        a1, a2 = cl.split("/")
                        if a1 == a2:
                            continue
                        for a, rk in (("e", "w"), ("e", "box"), ("t", "w")):
                            for pat in ("-", "Fdown"):
                                if pat != "-" and e == s:
                                    continue
                                out.append(pre + ["splice %s 0 i%d x%d %s drop %s %d - %s" % (a, s, e, pat, rk, rn, cl)]
                                           + usable_after(cfg, [0, 1]))
    return out

def fam_forget(cfg, tier, rng):
    """C07: forget a removal handle, a range iterator at every stage, or a yielded item."""
    L = 3 if tier == "quick" else 5
    out = []
    other_len = max_len(cfg, 2)
    for n in range(0, max_len(cfg, L) + 1):
        pre = prefix(cfg, [n, other_len])
        post = usable_after(cfg, [0, 1])
        ops = []
        for i in range(0, n + 1):
            ops += ["remove e 0 %d forget" % i, "swap_remove e 0 %d forget" % i, "remove e 0 %d mut+forget" % i]
            if cloneable(cfg):
                ops.append("remove e 0 %d lz:1:1+forget" % i)
        ops.append("pop e 0 forget")
        for s in range(0, n + 1):
            for e in range(s, n + 1):
                k = e - s
                pats = ["-"]
                for f in range(0, k + 1):
                    for b in range(0, k + 1 - f):
                        if f + b == 0 or f + b > 3:
                            continue
                        pats.append(",".join(["Fdown"] * f + ["Bdown"] * b))
                        pats.append(",".join(["Fforget"] * f + ["Bdrop"] * b))
                for p in pats:
                    for a in "et":
                        if a == "t" and "drop" in p:
                            continue
                        ops.append("drain %s 0 i%d x%d %s forget" % (a, s, e, p))
                        ops.append("splice %s 0 i%d x%d %s forget w 2 - 2" % (a, s, e, p))
                        if "forget" in p:
                            ops.append("drain %s 0 i%d x%d %s drop" % (a, s, e, p))
        for op in ops:
            out.append(pre + [op] + post)
    return out

def fam_lazy(cfg, tier, rng):
    """C09: lazy clones of every cloneable source kind x consumption kind x depth x count."""
    if not cloneable(cfg):
        return []
    L = 2 if tier == "quick" else 3
    out = []
    other_len = max_len(cfg, 2)
    for n in range(1, max_len(cfg, L) + 1):
        pre = prefix(cfg, [other_len, n, 0])   # consumer 0, source 1, spare 2
        post = ["iter ref 0 FFFFFF", "iter ref 1 FFFFFF", "dropvec 0", "dropvec 1", "dropvec 2"]
        for d in (1, 2, 3):
            for i in range(0, n):
                # source = element reference
                out.append(pre + ["push e 0 lz:%d:1:%d" % (d, i)] + post)
                out.append(pre + ["insert e 0 0 lz:%d:1:%d" % (d, i)] + post)
                out.append(pre + ["push e 0 lz:%d:1:%d" % (d, i), "push e 2 lz:%d:1:%d" % (d, i), "insert e 0 1 lz:%d:1:%d" % (d, i)] + post)
                # consumption by downcast
                out.append(pre + ["lazy_down %d 1 %d" % (d, i), "lazy_down %d 1 %d" % (d, i)] + post)
        for cnt in (0, 1, 2, 3):
            for i in range(0, n):
                # source = removal handle (then dropped / moved / forgotten), drained element
                for fin in ("drop", "down", "push:2"):
                    out.append(pre + ["remove e 1 %d lz:%d:0+%s" % (i, cnt, fin)] + post)
                    out.append(pre + ["swap_remove e 1 %d lz:%d:0+%s" % (i, cnt, fin)] + post)
                out.append(pre + ["pop e 1 lz:%d:0+drop" % cnt] + post)
                out.append(pre + ["pop e 1 lzd:%d+push:2" % cnt] + post)
                out.append(pre + ["remove e 1 %d lzd:%d+drop" % (i, cnt)] + post)
                out.append(pre + ["swap_remove e 1 %d lzd:%d+down" % (i, cnt)] + post)
                out.append(pre + ["drain e 1 i%d x%d Flzd:%d+drop drop" % (i, i + 1, cnt)] + post)
                out.append(pre + ["drain e 1 u u Blzd:%d+push:2 drop" % cnt] + post)
                out.append(pre + ["drain e 1 i%d x%d Flz:%d:0+drop drop" % (i, i + 1, cnt)] + post)
                out.append(pre + ["drain e 1 u u Blz:%d:0+push:2 drop" % cnt] + post)
            out.append(pre + ["splice e 0 i0 x0 - drop lz:1 %d - %d" % (cnt, cnt)] + post)
            out.append(pre + ["splice e 0 u u Fdown drop lz:1 %d - %d" % (cnt, cnt)] + post)
    return out

def fam_types(cfg, tier, rng):
    """C04: wrong runtime types at every checked entry point; downcasts and reports."""
    L = 3 if tier == "quick" else 4
    out = []
    other_len = max_len(cfg, 2)
    for n in range(0, max_len(cfg, L) + 1):
        pre = prefix(cfg, [n, other_len])
        post = usable_after(cfg, [0, 1])
        ops = []
        for i in range(0, n + 2):
            ops.append("probe_types 0 %d" % i)
            ops += ["insert e 0 %d wrong:2" % i, "insert e 0 %d boxwrong:2" % i]
            ops += ["down_wrong 0 rm %d" % i, "down_wrong 0 srm %d" % i, "swap_wrong 0 %d" % i,
                    "swap_wrong 0 %d raw" % i, "swap_wrong 0 %d rawrev" % i]
        ops += ["push e 0 wrong:2", "push e 0 boxwrong:2", "push e 0 wrong:3", "down_wrong 0 pop 0"]
        for s in range(0, n + 1):
            for e in range(s, n + 1):
                for rn in (1, 2, 3):
                    for j in range(0, rn):
                        ops.append("splice e 0 i%d x%d - drop box %d %d %d" % (s, e, rn, j, rn))
                        if e > s:
                            ops.append("splice e 0 i%d x%d Fdown drop box %d %d %d" % (s, e, rn, j, rn))
        for op in ops:
            out.append(pre + [op] + post)
    return out

def fam_handles(cfg, tier, rng):
    """C13: every index through every handle / view kind; write through one kind, read through
    all others; swap between handle kinds."""
    L = 3 if tier == "quick" else 4
    out = []
    other_len = max_len(cfg, 2)
    reads = list(range(0, 15))
    writes = list(range(0, 15))
    for n in range(0, max_len(cfg, L) + 1):
        pre = prefix(cfg, [n, other_len])
        post = ["iter ref 0 " + "F" * (n + 1), "dropvec 0", "dropvec 1"]
        for i in range(0, n + 2):
            out.append(pre + ["read %d 0 %d" % (hk, i) for hk in reads] + ["get e 0 %d" % i, "get t 0 %d" % i] + post)
            for w in writes:
                out.append(pre + ["write %d 0 %d" % (w, i)] + ["read %d 0 %d" % (hk, j) for hk in reads for j in range(0, n)] + post)
            for j in range(0, other_len + 1):
                for pr in (0, 1, 2):
                    out.append(pre + ["swap %d 0 %d 1 %d" % (pr, i, j)] + ["read %d 0 %d" % (hk, k) for hk in (0, 4) for k in range(0, n)]
                               + ["read 3 1 %d" % k for k in range(0, other_len)] + post)
    return out

def fam_parts(cfg, tier, rng):
    """C17: raw parts round trips in every small state, repeated and interleaved with every
    single operation."""
    if cfg["be"] not in ("heap", "empty"):
        return []
    L = 3 if tier == "quick" else 5
    out = []
    single = ["push e 0 w", "insert e 0 0 box", "pop e 0 drop", "remove e 0 0 down", "swap_remove e 0 0 drop", "clear e 0",
              "drain e 0 u u Fdown drop", "splice e 0 u u - drop w 1 - 1", "views 0", "iter ref 0 FF"]
    if cfg["be"] == "heap":
        single += ["reserve 0 3", "shrink_to_fit 0", "reserve_exact 0 1"]
    if cloneable(cfg):
        single += ["clone 0 1", "clone_empty 0 1"]
    for n in range(0, max_len(cfg, L) + 1):
        pres = [prefix(cfg, [n])]
        if cfg["be"] == "heap":
            pres.append(["withcap 0 heap %d" % (n + 2)] + ["push e 0 w"] * n)
            pres.append(["withcap 0 heap %d" % (n + 1)] + ["push e 0 w"] * n + ["clear e 0"])
        for pre in pres:
            for mode in (0, 1, 2):
                out.append(pre + ["parts 0 %d" % mode, "iter ref 0 " + "F" * (n + 1), "dropvec 0"])
                for op in single:
                    if op.startswith("clone"):
                        out.append(pre + ["parts 0 %d" % mode, op, "parts 0 %d" % mode, "parts 1 %d" % mode, "push e 1 w",
                                          "iter ref 0 FFFF", "iter ref 1 FFFF", "dropvec 1", "dropvec 0"])
                    else:
                        out.append(pre + ["parts 0 %d" % mode, op, "parts 0 %d" % mode, op, "iter ref 0 FFFF", "dropvec 0"])
    return out

def fam_iter_clone(cfg, tier, rng):
    """C14: clones of shared iterators advance independently of the original."""
    L = 3 if tier == "quick" else 4
    out = []
    for n in range(0, max_len(cfg, L) + 1):
        pre = prefix(cfg, [n, 0])
        for l1 in range(0, n + 2):
            for p1 in itertools.product("FB", repeat=l1):
                for l2 in range(0, min(n, 2) + 2):
                    for p2 in itertools.product("FB", repeat=l2):
                        for k in ("ref", "mut", "tref"):
                            out.append(pre + ["iter_clone %s 0 %s %s" % (k, "".join(p1) or "-", "".join(p2) or "-")])
    return out

def fam_cursor_max(cfg, tier, rng):
    """C14: the range iterator's cursor pair at the very end of the index space (usize::MAX)."""
    if not (cfg["sz"] == 0 and cfg["dg"] == 0 and cfg["be"] == "heap"):
        return []
    out = []
    for l in range(0, 7):
        for pat in itertools.product("FB", repeat=l):
            for a in "et":
                out.append(["cursor_max %s %s" % (a, "".join(pat) or "-")])
    return out

def fam_iter_nth(cfg, tier, rng):
    """C13/C14: Iterator::nth / nth_back (the i-th item, overshoot, calls after exhaustion)."""
    L = 3 if tier == "quick" else 5
    out = []
    kinds = ("ref", "tmut", "imut", "itref") if tier == "quick" else ("ref", "mut", "tref", "tmut", "iref", "imut", "itref", "itmut")
    for n in range(0, max_len(cfg, L) + 1):
        pre = prefix(cfg, [n, 0])
        steps = [c + str(k) for c in "FB" for k in range(0, min(n + 1, 3 if tier == "quick" else 5) + 1)]
        seqs = [[a] for a in steps] + [[a, b] for a in steps for b in steps]
        seqs += [[a, b, d] for a in ("F0", "B0") for b in steps for d in steps]
        for sq in seqs:
            for k in kinds:
                out.append(pre + ["iter_nth %s 0 %s" % (k, ",".join(sq))])
    return out

def fam_range_nth(cfg, tier, rng):
    """C02/C03/C14: nth / nth_back (and so skip / step_by / rev().skip) on the OWNING range iterators: the items
    passed over are destroyed like dropped ones, the i-th is yielded, overshoot exhausts; every range,
    erased and typed drain and splice, iterator then dropped or leaked."""
    L = 3 if tier == "quick" else 4
    out = []
    other_len = max_len(cfg, 2)
    for n in range(0, max_len(cfg, L) + 1):
        pre = prefix(cfg, [n, other_len])
        post = ["iter ref 0 " + "F" * (n + 1), "dropvec 0", "dropvec 1"]
        for s in range(0, n + 1):
            for e in range(s, n + 1):
                m = e - s
                ks = sorted(set([0, 1, max(0, m - 1), m, m + 1]))
                calls = ["%s%d~%s" % (c, k, sk) for c in "FB" for k in ks for sk in ("down", "drop")]
                seqs = [[a] for a in calls]
                seqs += [[a, b] for a in calls[::3] for b in ("Fdown", "Bdown", "F1~down", "B1~down", "B0~drop")]
                seqs += [["Fdown", a] for a in calls[::2]] + [["Bdown", a] for a in calls[1::2]]
                for sq in seqs:
                    p = ",".join(sq)
                    for a in "et":
                        if a == "t" and "drop" in p:
                            continue
                        out.append(pre + ["drain %s 0 i%d x%d %s drop" % (a, s, e, p)] + post)
                        if len(sq) == 1:
                            out.append(pre + ["splice %s 0 i%d x%d %s drop w 2 - 2" % (a, s, e, p)] + post)
                    if len(sq) == 1:
                        out.append(pre + ["drain e 0 i%d x%d %s forget" % (s, e, p)] + post[:1])
                        out.append(pre + ["splice e 0 i%d x%d %s drop box 1 - 1" % (s, e, p)] + post)
    return out

def fam_userlazy(cfg, tier, rng):
    """C09/C01: lazy clones (depth 1..3) of a USER-DEFINED cloneable value whose `Type` is the concrete element
    type - the only lazily cloned source whose static type is known - consumed by push / insert at every index
    (also out of range and into a full fixed vector), with and without a panicking Clone."""
    L = 3 if tier == "quick" else 4
    out = []
    for n in range(0, max_len(cfg, L) + 1):
        pre = prefix(cfg, [n, 0])
        post = usable_after(cfg, [0])
        for d in (1, 2, 3):
            out.append(pre + ["push e 0 ulz:%d" % d, "push e 0 ulz:%d" % d] + post)
            for i in range(0, n + 2):
                out.append(pre + ["insert e 0 %d ulz:%d" % (i, d)] + post)
        out.append(pre + ["fuse=0 push e 0 ulz:1", "push e 0 ulz:2"] + post)
        for i in range(0, n + 1):
            out.append(pre + ["fuse=0 insert e 0 %d ulz:1" % i] + post)
    return out

def fam_placement(cfg, tier, rng):
    """C12: storage pointer alignment for every admissible placement of the vector object."""
    if cfg["be"].split(":")[0] == "reloc":
        return []
    return [["placement"]]

def fam_handleswap(cfg, tier, rng):
    """C01 (the "mutated first" consumption mode): a removal handle is swapped with an element of ANOTHER vector - handle
    on the left and on the right of `swap` - before it is dropped; both vectors are read back afterwards.  (Seeded
    change C01-m10: the erased handle reports size 0, so `handle.swap(..)` silently does nothing.)"""
    L = 3 if tier == "quick" else 4
    out = []
    other_len = max_len(cfg, 2)
    for n in range(1, max_len(cfg, L) + 1):
        pre = prefix(cfg, [n, other_len])
        post = ["iter ref 0 " + "F" * (n + 1), "iter ref 1 " + "F" * (other_len + 1), "dropvec 0", "dropvec 1"]
        for i in range(0, n):
            for j in range(0, other_len):
                for pr in (1, 2):
                    out.append(pre + ["swap %d 0 %d 1 %d" % (pr, i, j)] + post)
    return out

def fam_stackcap(cfg, tier, rng):
    """C11: construction and reported capacity of the fixed backends for EVERY element layout, over-aligned ones
    included (no element is ever touched, so the known alignment defect D7 of the inline buffers does not matter):
    capacity = SIZE / size resp. N, construction panics iff N elements do not fit.  (Seeded change C11-m10: an
    over-aligned storage wrapper that reports capacity 0 above its own alignment.)"""
    return [["new 0 %s" % cfg["be"], "dropvec 0"], ["new 0 %s" % cfg["be"], "clone_empty 0 1", "dropvec 1", "dropvec 0"]]

FAMILIES = {
    "stackcap": fam_stackcap,
    "handleswap": fam_handleswap,
    "types": fam_types,
    "handles": fam_handles,
    "parts": fam_parts,
    "iter_clone": fam_iter_clone,
    "iter_nth": fam_iter_nth,
    "range_nth": fam_range_nth,
    "userlazy": fam_userlazy,
    "cursor_max": fam_cursor_max,
    "placement": fam_placement,
    "fuse": fam_fuse,
    "lazyfuse": fam_lazyfuse,
    "clonefuse": fam_clonefuse,
    "dropfuse": fam_dropfuse,
    "liar": fam_liar,
    "forget": fam_forget,
    "lazy": fam_lazy,
    "elem": fam_elem,
    "copy": fam_boundary_copy,
    "range": fam_range,
    "iter": fam_iter,
    "capacity": fam_capacity,
    "views": fam_views,
    "clone": fam_clone,
    "clone_in": fam_clone_in,
    "random": fam_random,
}
